#!/bin/bash
# Builds the framework from files on disk only (offline) and warms the Go build cache.
set -e
cd "$(dirname "$0")/harness"
export GOFLAGS=-mod=mod GOPROXY=off GOSUMDB=off GOTOOLCHAIN=local
go vet -tags verif ./internal/... 
for d in c[0-9][0-9]; do
  [ -d "$d" ] || continue
  go test -c -tags verif -o /dev/null ./$d/
done
echo setup ok
