#!/bin/bash
# Builds the framework from files on disk only (offline) and warms the Go build cache.
set -e
cd "$(dirname "$0")/harness"
export GOFLAGS=-mod=mod GOPROXY=off GOSUMDB=off GOTOOLCHAIN=local
go vet -tags verif ./internal/...
# the reference models check themselves against published vectors (RFC 9000 A.1, RFC 9380 K.1/K.3, RFC 5869 A.1, RFC 8032 test 1)
go test -count=1 ./internal/ref/
for d in c[0-9][0-9]; do
  [ -d "$d" ] || continue
  go test -c -tags verif -o /dev/null ./$d/
done
# C17 is built with the race detector: warm that part of the build cache too
go test -c -race -tags verif -o /dev/null ./c17/
echo setup ok
