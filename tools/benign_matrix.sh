#!/bin/bash
# Runs EVERY quick check against each benign (property-preserving) change; any rc=1 is a false alarm to investigate.
# usage: tools/benign_matrix.sh [parallelism] [glob, default benign/*/patch.diff] [outfile]
cd /verif
P=${1:-3}; G=${2:-"benign/*/patch.diff"}; OUT=${3:-benign/RESULTS.txt}
IDS=$(python3 -c "import json;print(' '.join(c['property_id'] for c in json.load(open('MANIFEST.json'))['checks']))")
ls $G | xargs -P $P -I{} bash -c "tools/try_patch.sh {} $IDS 2>&1 | grep 'patch.diff' | sed 's#^#'\$(basename \$(dirname {}))' #'" | sort > $OUT
grep -v "rc=0" $OUT
echo "runs: $(wc -l < $OUT), alarms: $(grep -c 'rc=1' $OUT), inconclusive: $(grep -c 'rc=2' $OUT)"
