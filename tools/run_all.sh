#!/bin/bash
# usage: tools/run_all.sh [quick|thorough] [seed]  - runs every claimed check on /repo as it is; prints one line per check
cd /verif
tier=${1:-quick}; seed=${2:-1}
for id in $(python3 -c "import json;print(' '.join(c['property_id'] for c in json.load(open('MANIFEST.json'))['checks']))"); do
  start=$(date +%s)
  out=$(VERIF_SEED=$seed ./check $id --tier $tier 2>&1); rc=$?
  echo "$id rc=$rc $(( $(date +%s) - start ))s $(echo "$out" | grep -E 'VIOLATION|KNOWN-FINDING|INCONCLUSIVE' | head -2 | tr '\n' ' ')"
done
