#!/bin/bash
# usage: tools/mutant.sh <patch.diff> <ID> [<ID>...]
# Applies a patch to /repo, runs the quick checks named, restores /repo.
# Prints "<patch> <ID> rc=<exit code>" per check; rc=1 means the check caught the change.
set -u
patch=$(readlink -f "$1"); shift
cd /verif
if ! git -C /repo diff --quiet; then echo "/repo has uncommitted changes; refusing" >&2; exit 3; fi
if ! git -C /repo apply --check "$patch" 2>/dev/null; then echo "$patch does not apply" >&2; exit 3; fi
git -C /repo apply "$patch"
trap 'git -C /repo checkout -- . ; git -C /repo clean -fdq' EXIT
for id in "$@"; do
  out=$(./check "$id" --tier ${MUTANT_TIER:-quick} 2>&1); rc=$?
  echo "$(basename $(dirname $patch))/$(basename $patch) $id rc=$rc $(echo "$out" | grep -m1 VIOLATION)"
  [ -n "${MUTANT_VERBOSE:-}" ] && echo "$out" | tail -20
done
