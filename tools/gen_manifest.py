#!/usr/bin/env python3
"""Regenerates /verif/MANIFEST.json from the table below and validates it."""
import json, os, sys
V = os.path.dirname(os.path.dirname(os.path.abspath(__file__)))
props = [json.loads(l) for l in open(os.path.join(V, "properties.jsonl"))]

TB = "The generator classes grew through six rounds of independently written breaking changes (DESIGN.md section 11 lists them per round; the per-sub-check rule texts in the evidence files are the authoritative description of what is generated). Trusted: Go 1.23.5 stdlib, circl v1.3.7, go-hpke, x/crypto, rapid v1.3.0, the harness's reference code in harness/internal/ref. Sampling, not proof: only the sub-domains named exhaustive in the evidence are complete."

# id -> (technique, level text, design_ref, extra note)
CLAIMS = {
 "C16": ("rapid PBT with guard/spare-capacity buffers around every byte argument of a table of exported operations, plus stateful histories with held values",
         "Every byte-slice argument of ~30 exported operations (Ed25519 and ECDSA forks, all decoders with valid and mutated input, request creation and finalization of all types, attester and issuer steps) is placed in guard(16)||arg||spare(0..64) with a drawn capacity; the whole buffer must be unchanged after the call and a second run with other noise must give the same (or an equally valid) result. Histories on one request state hold requests, encodings, responses and tokens (same memory) and re-check them after each of 2..8 further calls (finalize, finalize-corrupted, marshal, evaluate again, new request, verify).",
         "DESIGN.md section 4 C16", "quicwire.Append* are exempt beyond len (they are given that capacity)."),
 "C17": ("randomised concurrent plans executed under the Go race detector (-race, halt_on_error) with per-result sequential-equivalence checks",
         "Plans (object kind, 2..16 goroutines, 1..5 operations each, start skew, GOMAXPROCS) are drawn with rapid, written to disk, and executed on a shared object that is freshly constructed inside the case (keys without any lazily computed parts); the race detector must stay silent and every result must be one a sequential call could produce. The detector is happens-before based, so an unsynchronised pair is reported whenever both accesses execute, not only when they collide in time. Per issuer kind one crowd plan (100..400 goroutines, one evaluation each) looks for limits on concurrent work; a plan kind with 2..4 RSA keys compares every concurrently computed key id and encoding with the harness's own DER template (catches value confusion without a data race).",
         "DESIGN.md section 4 C17", "Schedules are sampled, not enumerated: a race in code no plan reaches concurrently, or an atomicity violation without a data race that still yields a valid result, is not found. A schedule-dependent failure cannot be shrunk; the plan file is the reproduction and is re-run 50 times on replay."),
 "C12": ("rapid PBT on four curves against an RFC 9380 hash-to-field reference written in the harness; algebraic laws (inverse, commutativity, one-at-a-time injectivity)",
         "Signing keys, blind-key byte strings (leading zeros, >= N, empty/0/1/N-1, far above N), contexts (nil/empty/0x00/long) and digests of length 0..128 are drawn on P-224/256/384/521. The blinded key must equal [r]pk with r recomputed from scratch (expand_message_xmd self-tested against RFC 9380 vectors) on crypto/elliptic; blind-key signatures must verify under it with this package and crypto/ecdsa and not under the unblinded key; unblind inverts, blindings commute, blind and context each bind the key.",
         "DESIGN.md section 4 C12", "Blind-key bytes are the minimal big-endian bytes of the blind scalar (the encoding the code and all callers use); the statement fixes no width."),
 "C13": ("differential rapid PBT against crypto/ecdsa (Go 1.23.5) + exhaustive entropy-fault enumeration",
         "Verify and VerifyASN1 are compared with the standard library on valid keys of four curves, digests 0..128 bytes, adversarial (r,s) (0, negatives, N-1, N, N+1, r+N, N-s, 2^k, random up to 640 bits) and structurally mutated DER (non-minimal/negative integers, trailing bytes, long-form/indefinite lengths, wrong tags, 1 or 3 integers, truncations, bit flips, random bytes); every fork signing entry point is verified by the standard library and vice versa. Entropy readers failing after every byte position 0..need+1 under four chunkings and two error styles are enumerated for GenerateKey and all signing entry points.",
         "DESIGN.md section 4 C13", "fault_enumeration for the entropy part is folded into this exploration-level evidence; readers obey the io.Reader contract (progress or error)."),
 "C14": ("differential rapid PBT against crypto/ed25519 + structural signature/key generators + internal arithmetic vs a math/big Edwards model through build-tag hooks",
         "Key derivation, Sign and PrivateKey.Sign must be byte-equal to crypto/ed25519 for drawn seeds/messages; GenerateKey must consume entropy, fail and count reads identically for every failure position 0..33 and four chunkings; Verify must agree with the standard library on triples built structurally (S+kL, top bits, special S, small-order and non-canonical R and A, forged R=[S]B under identity-like keys, random encodings, lengths 0/63/65). Through ed25519/verif_hooks.go the internal scalar reduction, fork-specific SetBytes and ModInverse, scMulAdd, point decode/add/scalar multiplications are compared with an affine math/big model on limb-boundary-biased inputs.",
         "DESIGN.md section 4 C14", "The math/big model is self-tested against RFC 8032 vector 1; a defect confined to one carry pattern is only as likely to be hit as the biased generators make it."),
 "C15": ("rapid PBT against the math/big Edwards model and crypto/ed25519.Verify; algebraic laws",
         "For drawn seeds, 32-byte blinds, contexts and messages the blinded key must equal [SHA-512(blind||00||ctx)[:32] mod l]A on the model, blind-key signatures must be deterministic and verify under the blinded key with the standard library (not under the original key), unblind must invert blind, blindings must commute, and blind and context must each change the key and invalidate the signature.",
         "DESIGN.md section 4 C15", "Blinds are 32 bytes (the documented length)."),
 "C06": ("rapid PBT of mutated (request, blind, client key) triples against an independent authenticity predicate and a recording cache",
         "Honest triples from real clients are mutated field by field (bit flips, spliced signatures, (r,N-s), extreme r/s, wrong/re-encoded/empty blind, other/negated/malformed client key, malformed request key); VerifyRequest==nil must imply crypto/ecdsa.Verify over the exact contents AND request key == the harness's own hash-to-field blinding of the client key on crypto/elliptic; rejected or unauthentic calls must cause no Put and leave every stored state unchanged; honest triples must be accepted.",
         "DESIGN.md section 4 C06", "Requests carry a 96-byte signature (what the decoder produces); shorter in-memory signatures are outside the domain."),
 "C07": ("rapid PBT of transformed honest requests plus requests crafted with go-hpke and crypto/ecdsa directly; exhaustive single-bit sweep per sampled request",
         "Honest encoded requests (1..3 registered origins, with/without the empty name) are bit-flipped per field, stripped of the signature, extended, truncated, re-targeted to another issuer's name key, sent for unregistered look-alike origins; crafted requests (attacker's own signing key, harness-side HPKE seal) reach states the honest client cannot: AAD bound to another request key, signature by a key other than request_key, signature over other bytes, unregistered origin inside, undecodable request key, truncated inner request. All must give an error and no output; honest and validly crafted requests must be served.",
         "DESIGN.md section 4 C07", "Not asserted: a wire issuer_encap_key_id different from the issuer's own with the real one in the AAD (served by pat-go; the property does not list it); trailing bytes inside the decrypted inner request."),
 "C08": ("rapid PBT of complete multi-request runs against an HKDF/hash-to-field reference written in the harness",
         "For two clients and origins with distinct, shared and issuer-generated index keys, sequences of 2..4 full runs (CreateTokenRequest, VerifyRequest, issuer Evaluate, FinalizeIndex) with independent blinds, nonces and challenges must all return HKDF-SHA-384(salt=client key, ikm=client key blinded by the index key, info=IssuerOriginAlias) as computed by the harness over crypto/hmac and crypto/elliptic; IDs must be distinct across clients and distinct index keys, equal for a shared index key.",
         "DESIGN.md section 4 C08", ""),
 "C09": ("stateful model-based testing (rapid state machine) + bounded-exhaustive enumeration of all short histories",
         "Histories over verify/finalize actions on 4 client keys (one never verified, one the negation of a verified key), 4 origins (two sharing an index key) and 5 anonymous origin IDs (one empty, one byte-equal to an issuer origin ID of the same client), with failing verifications and verifications by harness-built authentic requests with unusual blind values, are run against a fresh attester and a two-map model; every decision and returned ID must match the model, a panic is a violation, accepted pairs must stay accepted and a second ID for a bound index must stay refused after the history. All histories of length <=3 (quick) / <=4 (thorough) over a 17-letter alphabet are enumerated. Capacity: 300 clients at one attester, and one client with 8..70 origins (thorough: up to 600), with every binding re-examined at the end.",
         "DESIGN.md section 4 C09", ""),
 "C02": ("rapid PBT of attacker transformations of honest responses with a MUST-REJECT / SUCCESS-IMPLIES-VALID oracle; exhaustive single-bit sweep per sampled run",
         "Each case draws two outstanding requests under one key plus a response under a foreign key (type 3: a second issuer with the same name key and another token key), then hands the client bit-flipped, cross-wired, foreign-key, dropped/duplicated/swapped (type 5), truncated, extended, zeroed, random and re-framed responses. Success is only allowed outside the MUST-REJECT classes and only with tokens that verify independently under the pinned key and carry the request's nonce, digest and key id. Every bit position of a response is swept per type.",
         "DESIGN.md section 4 C02", "Concrete attacker moves listed in the property, not all adversaries; unforgeability of circl/stdlib primitives is assumed."),
 "C05": ("model-based rapid PBT over batch compositions and issuer configurations, with a metamorphic isolation relation",
         "Issuer sets (0..2 type-1 and 0..2 type-2 issuers in drawn order, several batches per issuer, cross-type truncated-id collisions) and batches over {known key, unknown key, malformed element/message incl. type-2 messages N, N+-1, 0, 1, unsupported type} are generated; the model computes per-request presence by calling the per-type issuer directly; the response must decode to one entry per request in order, presence must match, present entries must finalize to verifying tokens, and the good requests alone must give the same deterministic response parts. In-memory and wire paths; a second test uses a key pair whose truncated ids collide within one type, a third batches whose response crosses the varint length boundaries.",
         "DESIGN.md sections 4 C05 and 9", "Same-type truncated key-id collisions are in the domain for presence; the finalization clause is skipped only when two issuers both evaluate one request (no implementation can know which response the client can use); skips are counted."),
 "C10": ("exhaustive single-bit sweep + generated field variants against the circl FullEvaluate oracle",
         "For drawn type-1 and type-5 tokens: every single-bit variant, foreign keys, the other type's issuer (with/without type rewrite), moved field boundaries, truncated/extended authenticators and replaced fields are verified; the verdict must equal 'authenticator == VOPRF_key(type||nonce||context||key id)' computed through circl directly, in both directions.",
         "DESIGN.md section 4 C10", "VOPRF evaluation reference is circl itself (independent of pat-go, not of circl)."),
 "C11": ("metamorphic rapid PBT over pairs of blinds (same arguments => same bytes; other blind => other request, same token) + byte-exact replay of the Rust interop vectors",
         "Keys, challenges, nonces, salts and pairs of distinct blinds are drawn for types 1, 2, 5; requests must be reproducible and blind-dependent, tokens reproducible and blind-independent. Every shipped Rust vector is rebuilt from its blind/salt (keys parsed without pat-go) and must match token_request and token byte for byte. For types 1 and 5 the request bytes are also compared with an absolute oracle: type, key-id byte and [blind]HashToGroup(token input) computed through circl's group API (RFC 9497 context string written out), framed by the reference encoder; blinds include 1..47-byte encodings (type 1) and the top of the scalar range (type 5).",
         "DESIGN.md section 4 C11", ""),
 "C18": ("rapid PBT against a hand-written DER template (validated against the Rust implementation's SPKI) and independent key-id recomputation",
         "RSA keys drawn as numbers (1..4200-bit moduli around every DER length-form and leading-zero boundary, small/large exponents) must round-trip through both SPKI forms and equal the prescribed RSASSA-PSS DER; issuers of all four types must report SHA-256 of a serialization recomputed without pat-go; requests must carry the last id byte resp. SHA-256 of the 39-byte name key.",
         "DESIGN.md section 4 C18", "ristretto255 serialization reference is circl."),
 "C20": ("bounded-exhaustive enumeration of name lengths + rapid PBT of near-miss names with a metamorphic size law",
         "Every name length 0..130 (thorough 0..4096) and every 32-multiple +-1 to 4096 (thorough: up to the 65216-byte wire maximum) is requested against an issuer that registered exactly that name (must serve) and against one that registered only near-misses (must refuse); names needing the same number of 32-byte blocks must give equal wire lengths, different block counts different lengths. Drawn names add content variety (interior NULs, non-ASCII) and near-miss requests against the exact name.",
         "DESIGN.md section 4 C20", ""),
 "C01": ("rapid PBT of complete wire runs per token type against independent verification (circl FullEvaluate, crypto/rsa.VerifyPSS) and a byte-level token layout oracle",
         "Generated honest runs of all four token types in which request and response cross the wire as copied bytes into fresh objects; keys, challenges of any length, nonces, batch sizes (incl. varint-boundary sizes), origin names, client randomness (DRBG seeded from drawn values) and the WithBlind entry points are all drawn. Exploration: the property is a for-all over inputs with a cheap exact oracle.",
         "DESIGN.md section 4 C01", ""),
 "C03": ("structure-aware mutation PBT + bounded-exhaustive enumeration (prefixes, short strings, hostile length values x encodings x field offsets) with a panic/allocation/process-death oracle; native go fuzz per target in thorough",
         "28 byte-consuming entry points (two of them behind a harness-side re-signing step, so that mutated type-3 requests pass the signature check) (14 decoders, 4 client finalizations, issuer/attester/verification steps) are driven with every prefix of valid messages, every byte string of length <=2, the product of hostile length values with every encoding at every field offset, and rapid-generated structure-aware mutations (field re-framing, splices, length overwrites). Oracle: no panic, TotalAlloc delta <= 8MiB+1024*len, worker survives (in-flight record + fresh-process confirmation for fatal runtime errors). Thorough adds coverage-guided native fuzzing of each target with the same oracle inside.",
         "DESIGN.md sections 3.3 and 4 C03", "Non-termination is detected only through the test deadline + fresh-process re-run of the in-flight input (300 s)."),
 "C04": ("rapid PBT against independent reference encoders: round trip, accepted-bytes law on mutated inputs, object-reuse pairs; exhaustive 65536-tag sweep for type separation; Rust interop vectors",
         "For each of 13 wire structures: values drawn field by field are encoded by a reference encoder written from the TLS structs and compared with pat-go's Marshal and decoder; mutated encodings that a decoder accepts must re-encode no longer, stably, and equal Marshal(); request objects are reused across (previous value, new bytes) pairs; every request decoder sees its body under all 65536 tags. Exploration with an exhaustive tag sub-domain.",
         "DESIGN.md section 4 C04", "TokenChallenge.OriginInfo is compared through its comma-joined wire form (nil == [\"\"])."),
 "C19": ("bounded-exhaustive enumeration + rapid PBT against an RFC 9000 reference model; native go fuzz differential in thorough",
         "Every value below 2^22 (quick) / 2^30 (thorough) and every byte string of length <=2 / <=3 is enumerated against an independent model of RFC 9000 section 16; boundaries up to 2^62-1, truncations, declared lengths around and far beyond the remaining input (with guard bytes) are generated with rapid. Exploration is the right level: the domain is small and regular enough that enumeration plus boundary generation leaves little room.",
         "DESIGN.md section 4 C19", ""),
}
# the driver's table of rapid properties re-run under the native fuzzer
import re as _re
_drv = open(os.path.join(V, "check")).read()
PROPFUZZ = json.loads("{" + _re.search(r"PROPFUZZ = \{(.*?)\n\}", _drv, _re.S).group(1).rstrip().rstrip(",") + "}")
PROPFUZZ_SECONDS = int(_re.search(r"PROPFUZZ_SECONDS = (\d+)", _drv).group(1))
NOT_YET = "check not built yet in this round (planned, see DESIGN.md section 4)"

checks, na = [], []
for p in props:
    pid = p["id"]
    if pid in CLAIMS:
        tech, text, ref, note = CLAIMS[pid]
        if PROPFUZZ.get(pid):
            tech += "; thorough tier: the same rapid properties driven by the native coverage-guided fuzzer (rt.FuzzProp)"
            text += " In the thorough tier %d of these rapid properties are additionally run under `go test -fuzz` (the fuzzer's bytes are the stream rapid draws from; %d s each, seed corpus of pseudo-random streams), with the same oracles and failure signatures." % (len(PROPFUZZ[pid]), PROPFUZZ_SECONDS)
        checks.append({
            "property_id": pid,
            "quick_cmd": "./check %s --tier quick" % pid,
            "thorough_cmd": "./check %s --tier thorough" % pid,
            "evidence_file": "/verif/evidence/%s.json" % pid,
            "replay_cmd_template": "./check %s --replay {path}" % pid,
            "engine": "rapid+gofuzz",
            "level_claimed": {"category": "exploration", "text": text, "design_ref": ref},
            "level_note": (note + " " if note else "") + TB,
            "technique": tech,
        })
    else:
        na.append({"property_id": pid, "reason": NOT_YET})

hooks_commits = []
hc = os.path.join(V, "hooks_commits.txt")
if os.path.exists(hc):
    hooks_commits = [l.strip() for l in open(hc) if l.strip()]

m = {
 "version": 1,
 "setup_cmd": "./setup.sh",
 "hooks": {
   "guard": "verif",
   "enable": "go build tag: the driver builds every test binary with `go test -c -tags verif` inside /verif/harness, whose go.mod replaces github.com/cloudflare/pat-go by /repo",
   "baseline_off_cmd": "cd /repo && GOFLAGS=-mod=mod GOPROXY=off GOSUMDB=off GOTOOLCHAIN=local go test -vet=off -count=1 ./...",
   "source_commits": hooks_commits,
   "add_only": True,
 },
 "engines": [
   {"name": "rapid+gofuzz", "path": "/verif/harness", "serves_properties": [c["property_id"] for c in checks],
    "kind_free_text": "Go test packages (one per property) using pgregory.net/rapid v1.3.0 for generated/stateful cases and enumeration loops for bounded-exhaustive sub-domains; native `go test -fuzz` targets with in-target oracles in the thorough tier; python driver /verif/check builds from /repo's working tree, shards, merges evidence"},
 ],
 "checks": checks,
 "not_applicable": na,
 "notes": "Driver: ./check <ID> --tier quick|thorough [--replay PATH]. Exit 2 = inconclusive (build failure, timeout, unattributable worker death), never a violation. Known findings: /verif/known_findings.json.",
}
json.dump(m, open(os.path.join(V, "MANIFEST.json"), "w"), indent=1)
try:
    import jsonschema
    jsonschema.validate(m, json.load(open("/root/.vp/MANIFEST.schema.json")))
    for c in checks:
        ev = os.path.join(V, "evidence", c["property_id"] + ".json")
        if os.path.exists(ev):
            jsonschema.validate(json.load(open(ev)), json.load(open("/root/.vp/EVIDENCE.schema.json")))
        else:
            print("missing evidence", ev)
    print("MANIFEST ok: %d claimed, %d not_applicable" % (len(checks), len(na)))
except ImportError:
    print("jsonschema not available; not validated")
