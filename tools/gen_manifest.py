#!/usr/bin/env python3
"""Regenerates /verif/MANIFEST.json from the table below and validates it."""
import json, os, sys
V = os.path.dirname(os.path.dirname(os.path.abspath(__file__)))
props = [json.loads(l) for l in open(os.path.join(V, "properties.jsonl"))]

TB = "Trusted: Go 1.23.5 stdlib, circl v1.3.7, go-hpke, x/crypto, rapid v1.3.0, the harness's reference code in harness/internal/ref. Sampling, not proof: only the sub-domains named exhaustive in the evidence are complete."

# id -> (technique, level text, design_ref, extra note)
CLAIMS = {
 "C19": ("bounded-exhaustive enumeration + rapid PBT against an RFC 9000 reference model; native go fuzz differential in thorough",
         "Every value below 2^22 (quick) / 2^30 (thorough) and every byte string of length <=2 / <=3 is enumerated against an independent model of RFC 9000 section 16; boundaries up to 2^62-1, truncations, declared lengths around and far beyond the remaining input (with guard bytes) are generated with rapid. Exploration is the right level: the domain is small and regular enough that enumeration plus boundary generation leaves little room.",
         "DESIGN.md section 4 C19", ""),
}
NOT_YET = "check not built yet in this round (planned, see DESIGN.md section 4)"

checks, na = [], []
for p in props:
    pid = p["id"]
    if pid in CLAIMS:
        tech, text, ref, note = CLAIMS[pid]
        checks.append({
            "property_id": pid,
            "quick_cmd": "./check %s --tier quick" % pid,
            "thorough_cmd": "./check %s --tier thorough" % pid,
            "evidence_file": "/verif/evidence/%s.json" % pid,
            "replay_cmd_template": "./check %s --replay {path}" % pid,
            "engine": "rapid+gofuzz",
            "level_claimed": {"category": "exploration", "text": text, "design_ref": ref},
            "level_note": (note + " " if note else "") + TB,
            "technique": tech,
        })
    else:
        na.append({"property_id": pid, "reason": NOT_YET})

hooks_commits = []
hc = os.path.join(V, "hooks_commits.txt")
if os.path.exists(hc):
    hooks_commits = [l.strip() for l in open(hc) if l.strip()]

m = {
 "version": 1,
 "setup_cmd": "./setup.sh",
 "hooks": {
   "guard": "verif",
   "enable": "go build tag: the driver builds every test binary with `go test -c -tags verif` inside /verif/harness, whose go.mod replaces github.com/cloudflare/pat-go by /repo",
   "baseline_off_cmd": "cd /repo && GOFLAGS=-mod=mod GOPROXY=off GOSUMDB=off GOTOOLCHAIN=local go test -vet=off -count=1 ./...",
   "source_commits": hooks_commits,
   "add_only": True,
 },
 "engines": [
   {"name": "rapid+gofuzz", "path": "/verif/harness", "serves_properties": [c["property_id"] for c in checks],
    "kind_free_text": "Go test packages (one per property) using pgregory.net/rapid v1.3.0 for generated/stateful cases and enumeration loops for bounded-exhaustive sub-domains; native `go test -fuzz` targets with in-target oracles in the thorough tier; python driver /verif/check builds from /repo's working tree, shards, merges evidence"},
 ],
 "checks": checks,
 "not_applicable": na,
 "notes": "Driver: ./check <ID> --tier quick|thorough [--replay PATH]. Exit 2 = inconclusive (build failure, timeout, unattributable worker death), never a violation. Known findings: /verif/known_findings.json.",
}
json.dump(m, open(os.path.join(V, "MANIFEST.json"), "w"), indent=1)
try:
    import jsonschema
    jsonschema.validate(m, json.load(open("/root/.vp/MANIFEST.schema.json")))
    for c in checks:
        ev = os.path.join(V, "evidence", c["property_id"] + ".json")
        if os.path.exists(ev):
            jsonschema.validate(json.load(open(ev)), json.load(open("/root/.vp/EVIDENCE.schema.json")))
        else:
            print("missing evidence", ev)
    print("MANIFEST ok: %d claimed, %d not_applicable" % (len(checks), len(na)))
except ImportError:
    print("jsonschema not available; not validated")
