#!/bin/bash
# usage: tools/try_patch.sh <patch.diff> <ID> [<ID>...]
# Runs checks against a scratch worktree of /repo HEAD with the patch applied (leaves /repo untouched).
# Prints "<patch> <ID> rc=<exit code>"; rc=1 means the check caught the change.
set -u
patch=$(readlink -f "$1"); shift
wt=/tmp/trypatch-$$-$RANDOM
git -C /repo worktree add -q --detach $wt HEAD || exit 3
trap 'git -C /repo worktree remove --force '$wt' 2>/dev/null; rm -rf '$wt EXIT
if ! git -C $wt apply "$patch"; then echo "$patch does not apply" >&2; exit 3; fi
cd /verif
for id in "$@"; do
  out=$(VERIF_REPO=$wt ./check "$id" --tier ${MUTANT_TIER:-quick} 2>&1); rc=$?
  echo "$(basename $(dirname $patch))/$(basename $patch) $id rc=$rc $(echo "$out" | grep -m1 -o 'sig=[^ ]*')"
  [ -n "${MUTANT_VERBOSE:-}" ] && echo "$out" | tail -20
done
