#!/bin/bash
# Runs every seeded change against its target property's quick check (scratch worktrees; /repo untouched).
# usage: tools/seeded_matrix.sh [parallelism]   -> writes seeded/RESULTS.txt
cd /verif
P=${1:-4}
ls -d seeded/C??-? | xargs -P $P -I{} bash -c 'd={}; id=$(basename $d | cut -d- -f1); tools/try_patch.sh $d/patch.diff $id 2>&1 | tail -1' | sort > seeded/RESULTS.txt
cat seeded/RESULTS.txt
echo "caught: $(grep -c "rc=1" seeded/RESULTS.txt) / $(wc -l < seeded/RESULTS.txt)"
