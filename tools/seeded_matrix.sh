#!/bin/bash
# Runs seeded changes against their target property's quick check - and against the property named in seeded/CROSS.txt
# where the change (labelled by its author with one property) really breaks another one (scratch worktrees; /repo untouched).
# usage: tools/seeded_matrix.sh [parallelism] [glob-of-variants, default all] [outfile]
cd /verif
P=${1:-4}; G=${2:-"seeded/C??-?"}; OUT=${3:-seeded/RESULTS.txt}
ls -d $G | xargs -P $P -I{} bash -c 'd={}; n=$(basename $d); id=${n%-*}; extra=$(grep "^$n " seeded/CROSS.txt | cut -d" " -f2); tools/try_patch.sh $d/patch.diff $id $extra 2>&1 | grep "patch.diff" | tr "\n" ";"; echo' | sort > $OUT
cat $OUT
echo "caught: $(grep -c "rc=1" $OUT) / $(wc -l < $OUT)"
