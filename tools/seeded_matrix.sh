#!/bin/bash
# Runs seeded changes against their target property's quick check (scratch worktrees; /repo untouched).
# usage: tools/seeded_matrix.sh [parallelism] [glob-of-variants, default all] [outfile]
cd /verif
P=${1:-4}; G=${2:-"seeded/C??-?"}; OUT=${3:-seeded/RESULTS.txt}
ls -d $G | xargs -P $P -I{} bash -c 'd={}; id=$(basename $d | cut -d- -f1); tools/try_patch.sh $d/patch.diff $id 2>&1 | tail -1' | sort > $OUT
cat $OUT
echo "caught: $(grep -c "rc=1" $OUT) / $(wc -l < $OUT)"
