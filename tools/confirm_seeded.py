#!/usr/bin/env python3
"""Confirms a sub-agent's seeded change in a scratch worktree (outside /repo and /verif) and
stores it under /verif/seeded/<name>/. usage: confirm_seeded.py <srcdir> <name>
srcdir holds patch.diff, demo_test.go, meta.json."""
import json, os, re, shutil, subprocess, sys
src, name = sys.argv[1], sys.argv[2]
env = dict(os.environ, GOFLAGS="-mod=mod", GOPROXY="off", GOSUMDB="off", GOTOOLCHAIN="local")
wt = "/tmp/confirm-wt-%d" % os.getpid()
def sh(cmd, cwd=wt, check=False):
    p = subprocess.run(cmd, cwd=cwd, env=env, shell=True, stdout=subprocess.PIPE, stderr=subprocess.STDOUT, text=True)
    if check and p.returncode != 0:
        raise SystemExit("FAILED: %s\n%s" % (cmd, p.stdout[-3000:]))
    return p.returncode, p.stdout
subprocess.run(["git", "-C", "/repo", "worktree", "add", "-q", "--detach", wt, "HEAD"], check=True)
result = {"name": name, "confirmed": False}
try:
    meta = json.load(open(os.path.join(src, "meta.json")))
    patch = os.path.abspath(os.path.join(src, "patch.diff"))
    demo = open(os.path.join(src, "demo_test.go")).read()
    pkgdir = meta.get("demo_package_dir") or ""
    if not pkgdir:
        m = re.search(r"((?:tokens|ecdsa|ed25519|util|quicwire)[\w/]*)/?", demo[:600])
        pkgdir = m.group(1) if m else ""
    pkgdir = pkgdir.strip("/").replace("/tmp/seedwork/wt-", "")
    demo_path = os.path.join(wt, pkgdir, "zz_seeded_demo_test.go")
    sh("git apply --check %s" % patch, check=True)
    sh("git apply %s" % patch, check=True)
    rc, out = sh("go build ./... && go vet ./... >/dev/null 2>&1; go build ./...")
    if rc != 0: raise SystemExit("patched tree does not build:\n" + out[-2000:])
    rc, out = sh("go test -vet=off -count=1 ./...")
    if rc != 0: raise SystemExit("existing tests fail with the patch:\n" + out[-3000:])
    open(demo_path, "w").write(demo)
    rc_patched, out_patched = sh("go test -vet=off -count=1 ./%s/" % pkgdir)
    os.remove(demo_path)
    sh("git checkout -- .", check=True)
    open(demo_path, "w").write(demo)
    rc_clean, out_clean = sh("go test -vet=off -count=1 ./%s/" % pkgdir)
    os.remove(demo_path)
    if rc_patched == 0: raise SystemExit("demo does not fail with the patch")
    if rc_clean != 0: raise SystemExit("demo does not pass on the clean tree:\n" + out_clean[-2000:])
    dst = os.path.join("/verif/seeded", name)
    os.makedirs(dst, exist_ok=True)
    shutil.copy(patch, os.path.join(dst, "patch.diff"))
    shutil.copy(os.path.join(src, "demo_test.go"), os.path.join(dst, "demo_test.go"))
    meta.update({"demo_package_dir": pkgdir,
                 "confirmed_by": "tools/confirm_seeded.py in a scratch worktree of /repo HEAD %s: git apply; go build ./...; go test -vet=off -count=1 ./... all ok without the demo; demo fails with the patch and passes on the clean tree" %
                 subprocess.run(["git", "-C", "/repo", "rev-parse", "--short", "HEAD"], capture_output=True, text=True).stdout.strip(),
                 "demo_failure_excerpt": "\n".join(l for l in out_patched.splitlines() if "FAIL" in l or "Error" in l or "demo" in l.lower())[:1500]})
    json.dump(meta, open(os.path.join(dst, "meta.json"), "w"), indent=1)
    result["confirmed"] = True
    print("CONFIRMED", name, "->", dst)
finally:
    subprocess.run(["git", "-C", "/repo", "worktree", "remove", "--force", wt])
    shutil.rmtree(wt, ignore_errors=True)
