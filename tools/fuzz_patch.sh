#!/bin/bash
# usage: tools/fuzz_patch.sh <patch.diff|-> <pkg> <FuzzTarget> <seconds>
# Runs ONE native fuzz target against a scratch worktree with the patch applied ("-" = unchanged HEAD). Prints the tail of the fuzzer's output.
set -u
export GOFLAGS=-mod=mod GOPROXY=off GOSUMDB=off GOTOOLCHAIN=local
patch=$1; pkg=$2; tgt=$3; secs=$4
wt=/tmp/fuzzpatch-$$-$RANDOM
git -C /repo worktree add -q --detach $wt HEAD || exit 3
trap 'git -C /repo worktree remove --force '$wt' 2>/dev/null; rm -rf '$wt' /tmp/fuzzpatch-$$.mod /tmp/fuzzpatch-$$.sum' EXIT
[ "$patch" != "-" ] && { git -C $wt apply "$(readlink -f $patch)" || exit 3; }
sed "s#=> /repo#=> $wt#" /verif/harness/go.mod > /tmp/fuzzpatch-$$.mod; cp /verif/harness/go.sum /tmp/fuzzpatch-$$.sum
cd /verif/harness
corpus=$pkg/testdata/fuzz/$tgt
before=$(ls $corpus 2>/dev/null | sort)
VERIF_PROPERTY=${pkg^^} VERIF_TIER=thorough VERIF_REPO=$wt VERIF_DIR=/verif go test -tags verif -modfile /tmp/fuzzpatch-$$.mod -run '^$' -fuzz "^$tgt\$" -fuzztime ${secs}s ./$pkg/ 2>&1 | grep -v "^fuzz: elapsed" | cut -c1-400 | tail -12
for f in $(ls $corpus 2>/dev/null | sort); do echo "$before" | grep -qx "$f" || rm -f $corpus/$f; done
