#!/bin/bash
# Thorough tier of the checks closest to each benign change (the quick matrix runs everything). usage: tools/benign_thorough.sh [parallelism]
cd /verif
P=${1:-1}; OUT=benign/RESULTS-thorough.txt
declare -A M=(
 [b11]="C19" [b31]="C19 C04" [b51]="C19 C05"
 [b12]="C06 C09" [b23]="C07 C08" [b32]="C06 C07" [b41]="C09 C17" [b52]="C20 C11"
 [b13]="C05" [b21]="C05 C18" [b34]="C05 C04" [b42]="C17"
 [b14]="C12" [b24]="C12 C13" [b33]="C13" [b43]="C13 C17"
 [b22]="C14 C17" [b44]="C15" [b54]="C14 C15"
 [b53]="C18"
)
for b in "${!M[@]}"; do echo "$b ${M[$b]}"; done | sort | xargs -P $P -L1 bash -c 'b=$0; MUTANT_TIER=thorough tools/try_patch.sh benign/$b/patch.diff "$@" 2>&1 | grep "patch.diff" | sed "s#^#$b #"' | tee $OUT.tmp
sort $OUT.tmp > $OUT; rm -f $OUT.tmp
echo "runs: $(wc -l < $OUT), alarms: $(grep -c 'rc=1' $OUT), inconclusive: $(grep -c 'rc=2' $OUT)"
