// C01 — honest issuance over the wire always yields a valid, correctly bound token.
package c01

import (
	"bytes"
	"encoding/binary"
	"fmt"
	"testing"

	"pgregory.net/rapid"

	"verifharness/internal/gen"
	"verifharness/internal/rt"
)

func TestMain(m *testing.M) { rt.Main(m) }

const rule = "honest run: CreateTokenRequest[WithBlind(s)] -> Request().Marshal() -> copy -> fresh request object Unmarshal -> Evaluate -> copy -> FinalizeToken(s); oracle: no step errors, token bytes = type||nonce||SHA-256(challenge)||key id||authenticator(48/256/256/64), verifies via circl FullEvaluate / crypto/rsa.VerifyPSS. Every case is a complete run (non-trivial); distinct by (type, key id, challenge, nonces, request bytes)"

func runType(t *testing.T, typ uint16, quick, thorough int) {
	s := rt.S(gen.TypeName(typ)).SetRule(rule)
	rt.Check(t, quick, thorough, func(t *rapid.T) {
		defer rt.Entropy(gen.Seed().Draw(t, "entropy"))()
		sess, err := gen.NewSession(t, typ, gen.SessionOpts{MaxBatch: 8, BigBatches: true, RKeyIdx: -1})
		s.Eval()
		if err != nil {
			rt.Fail(t, fmt.Sprintf("C01/%s/create", gen.TypeName(typ)), "request creation failed: %v", err)
			return
		}
		s.Class("mode:" + sess.Mode)
		if len(sess.Challenge) != 32 {
			s.Class("challenge-len!=32")
		}
		if len(sess.Nonces) >= 2 {
			s.Class("batch>=2")
		}
		if len(sess.Nonces) >= 63 {
			s.Class("batch-crossing-varint-boundary")
		}
		wire := append([]byte{}, sess.RequestBytes...)
		// In a third of the runs the issuer first sees a few malformed requests and the client a few malformed
		// responses (results ignored): error paths must not leave anything behind that breaks the honest run.
		noise := gen.Uniform(t, 3, "malformedTrafficFirst") == 0
		if noise {
			s.Class("after-malformed-traffic")
			for i := 0; i < 3; i++ {
				bad, _ := gen.Mutate(t, wire, nil, []int{0, 1, 2, 3})
				rt.GuardLite(func() { _, _ = sess.IssueWire(bad) })
			}
		}
		resp, err := sess.IssueWire(wire)
		if err != nil {
			rt.Fail(t, fmt.Sprintf("C01/%s/issue", gen.TypeName(typ)), "issuer failed on an honest request that crossed the wire: %v (request %s)", err, rt.Hex(wire))
			return
		}
		respWire := append([]byte{}, resp...)
		if noise {
			for i := 0; i < 3; i++ {
				bad, _ := gen.Mutate(t, respWire, nil, []int{0, 1, 2, 3})
				if !bytes.Equal(bad, respWire) {
					rt.GuardLite(func() { _, _ = sess.Finalize(bad) })
				}
			}
		}
		toks, err := sess.Finalize(respWire)
		if err != nil {
			rt.Fail(t, fmt.Sprintf("C01/%s/finalize", gen.TypeName(typ)), "client rejected the honest response: %v", err)
			return
		}
		if err := sess.CheckTokens(toks); err != nil {
			rt.Fail(t, fmt.Sprintf("C01/%s/token", gen.TypeName(typ)), "%v", err)
			return
		}
		var nb []byte
		for _, n := range sess.Nonces {
			nb = append(nb, n...)
		}
		s.Nontrivial(binary.BigEndian.AppendUint16(nil, typ), sess.KeyID, sess.Challenge, nb, sess.RequestBytes)
		s.Sample(func() any {
			return map[string]any{"type": typ, "mode": sess.Mode, "challenge_len": len(sess.Challenge), "nonces": len(sess.Nonces),
				"origin": sess.Origin, "request": rt.Hex(sess.RequestBytes), "response": rt.Hex(resp), "token0": rt.Hex(toks[0].Marshal())}
		})
	})
}

func TestType1(t *testing.T) { runType(t, 1, 150, 20000) }
func TestType2(t *testing.T) { runType(t, 2, 150, 24000) }
func TestType3(t *testing.T) { runType(t, 3, 150, 20000) }
func TestType5(t *testing.T) { runType(t, 5, 150, 24000) }

// TestInterleavedRequests: one client object per type creates several requests before any is finalized;
// they are then issued and finalized in a drawn order. Every run must still be a valid, correctly bound issuance.
func TestInterleavedRequests(t *testing.T) {
	s := rt.S("interleaved").SetRule("one client object (package constructor) creates 2..4 (now and then 9..70) requests of a type - same or different keys, challenges, nonces - before any is finalized; requests are evaluated and finalized in a drawn order; same oracle per run. non-trivial = every sequence; distinct by request bytes")
	rt.Check(t, 120, 24000, func(t *rapid.T) {
		defer rt.Entropy(gen.Seed().Draw(t, "entropy"))()
		typ := gen.Pick(t, []uint16{1, 2, 3, 5}, "type")
		cl := gen.NewClients()
		n := gen.UniformRange(t, 2, 4, "requests")
		if gen.Uniform(t, 12, "manyOutstanding") == 0 {
			// now and then MANY outstanding requests of one client object (pools, free lists and tables have capacities)
			n = gen.Pick(t, []int{9, 17, 33, 70}, "manyRequests")
			s.Class("many-outstanding-requests")
		}
		var sessions []*gen.Session
		o := gen.SessionOpts{MaxBatch: 4, RKeyIdx: -1, Clients: cl}
		if typ == 3 {
			o.ClientSecret = gen.P384KeyBytes().Draw(t, "clientSecret")
		}
		// in a quarter of the cases the challenges of consecutive requests are a pair of different byte strings of equal length
		// that a weak checksum (CRC-32, FNV, Adler, byte sum / xor) cannot tell apart
		var pair *gen.Collision
		if gen.Uniform(t, 4, "collidingChallenges") == 0 {
			c := gen.Pick(t, gen.WeakHashCollisions("challenge %s for a token"), "family")
			pair = &c
			s.Class("challenges-colliding-under-" + c.Hash)
		}
		for i := 0; i < n; i++ {
			if pair != nil {
				o.Challenge = []byte([]string{pair.A, pair.B}[i%2])
			}
			sess, err := gen.NewSession(t, typ, o)
			if err != nil {
				rt.Fail(t, fmt.Sprintf("C01/%s/create", gen.TypeName(typ)), "request creation failed: %v", err)
				return
			}
			sessions = append(sessions, sess)
			if rapid.Bool().Draw(t, "sameKey") {
				o.OKey, o.RKeyIdx, o.RKey = sess.OKey, rsaIndex(sess), sess.RKey
				if typ == 3 {
					o.Issuer3, o.Origin = sess.Issuer3, &sess.Origin
				}
			}
		}
		s.Eval()
		s.Class(gen.TypeName(typ))
		order := rapid.Permutation(sessions).Draw(t, "order")
		var id []byte
		for _, sess := range order {
			resp, err := sess.IssueWire(append([]byte{}, sess.RequestBytes...))
			if err != nil {
				rt.Fail(t, fmt.Sprintf("C01/%s/issue", gen.TypeName(typ)), "issuer failed on an honest request: %v", err)
				return
			}
			toks, err := sess.Finalize(append([]byte{}, resp...))
			if err != nil {
				rt.Fail(t, fmt.Sprintf("C01/%s/finalize", gen.TypeName(typ)), "client rejected the honest response of one of %d interleaved requests: %v", n, err)
				return
			}
			if err := sess.CheckTokens(toks); err != nil {
				rt.Fail(t, fmt.Sprintf("C01/%s/token", gen.TypeName(typ)), "interleaved requests of one client: %v", err)
				return
			}
			id = append(id, sess.RequestBytes...)
		}
		s.Nontrivial(id)
		s.Sample(func() any { return map[string]any{"type": typ, "requests": n} })
	})
}

func rsaIndex(s *gen.Session) int {
	for i, k := range gen.RSAPool() {
		if k == s.RKey {
			return i
		}
	}
	return -1
}

// TestCollidingChallenges: for every token type and every weak-checksum family, two honest issuances by one client
// object whose challenges are different byte strings of equal length with the same checksum (CRC-32 IEEE / Castagnoli,
// FNV-1 / FNV-1a, Adler-32, byte sum, byte xor). Whatever is remembered per challenge under such a key would hand the
// second issuance the first one's digest; each token must carry SHA-256 of ITS challenge.
func TestCollidingChallenges(t *testing.T) {
	s := rt.S("colliding-challenges").SetRule("4 token types x 7 checksum families (all of them in every case), two issuances each with challenges that collide under the family's checksum and have equal length; same oracle per run (token = type || nonce || SHA-256(own challenge) || key id || authenticator, verifies independently). non-trivial = every pair; distinct by (type, family, keys)")
	rt.Check(t, 1, 160, func(t *rapid.T) {
		defer rt.Entropy(gen.Seed().Draw(t, "entropy"))()
		for _, typ := range []uint16{1, 2, 3, 5} {
			for _, c := range gen.WeakHashCollisions("challenge %s for a token") {
				cl := gen.NewClients()
				o := gen.SessionOpts{MaxBatch: 3, RKeyIdx: -1, Clients: cl}
				if typ == 3 {
					o.ClientSecret = gen.P384KeyBytes().Draw(t, "clientSecret")
				}
				for i, ch := range []string{c.A, c.B, c.A} {
					o.Challenge = []byte(ch)
					sess, err := gen.NewSession(t, typ, o)
					if err != nil {
						rt.Fail(t, fmt.Sprintf("C01/%s/create", gen.TypeName(typ)), "request creation failed: %v", err)
						return
					}
					resp, err := sess.IssueWire(append([]byte{}, sess.RequestBytes...))
					if err != nil {
						rt.Fail(t, fmt.Sprintf("C01/%s/issue", gen.TypeName(typ)), "issuer failed on an honest request: %v", err)
						return
					}
					toks, err := sess.Finalize(append([]byte{}, resp...))
					if err != nil {
						rt.Fail(t, fmt.Sprintf("C01/%s/finalize", gen.TypeName(typ)), "client rejected the honest response: %v", err)
						return
					}
					if err := sess.CheckTokens(toks); err != nil {
						rt.Fail(t, fmt.Sprintf("C01/%s/token", gen.TypeName(typ)), "issuance %d of 3 with challenges %q / %q (equal length, equal %s): %v", i+1, c.A, c.B, c.Hash, err)
						return
					}
					s.Eval()
					s.Class(gen.TypeName(typ) + "/" + c.Hash)
					s.Nontrivial([]byte{byte(typ), byte(i)}, []byte(c.Hash), sess.RequestBytes)
				}
			}
		}
		s.Sample(func() any { return gen.WeakHashCollisions("challenge %s for a token") })
	})
}
