// C19 — QUIC varints and length-prefixed byte strings are exact and bounds-safe.
package c19

import (
	"bytes"
	"encoding/binary"
	"fmt"
	"testing"
	"time"

	"github.com/cloudflare/pat-go/quicwire"
	"pgregory.net/rapid"

	"verifharness/internal/gen"
	"verifharness/internal/ref"
	"verifharness/internal/rt"
)

func TestMain(m *testing.M) { rt.Main(m) }

// checkValue checks encoder, size function and decoder for one value against the model.
// dst is a scratch buffer holding a prefix that must be left untouched.
func checkValue(v uint64, prefix []byte, scratch []byte) error {
	want := ref.VarintEncode(v)
	dst := append(scratch[:0], prefix...)
	// what lies in the destination's spare capacity BEHIND the bytes that get appended is the caller's and stays as it is
	full := scratch[:cap(scratch)]
	for i := len(prefix); i < len(full); i++ {
		full[i] = 0xB0 + byte(i)
	}
	got := quicwire.AppendVarint(dst, v)
	if len(got) <= cap(scratch) && len(got) > 0 && &got[0] == &full[0] {
		for i := len(got); i < len(full); i++ {
			if full[i] != 0xB0+byte(i) {
				return fmt.Errorf("SIG=C19/append-writes-behind AppendVarint(%x, %d) changed byte %d of the destination's capacity, %d bytes behind the encoding it appended", prefix, v, i, i-len(got))
			}
		}
	}
	if len(got) != len(prefix)+len(want) || !bytes.Equal(got[:len(prefix)], prefix) || !bytes.Equal(got[len(prefix):], want) {
		return fmt.Errorf("SIG=C19/append AppendVarint(%x, %d) = %x, want %x||%x", prefix, v, got, prefix, want)
	}
	if n := quicwire.SizeVarint(v); n != len(want) {
		return fmt.Errorf("SIG=C19/size SizeVarint(%d) = %d, want %d", v, n, len(want))
	}
	enc := got[len(prefix):]
	if w, n := quicwire.ConsumeVarint(enc); w != v || n != len(want) {
		return fmt.Errorf("SIG=C19/consume ConsumeVarint(%x) = (%d,%d), want (%d,%d)", enc, w, n, v, len(want))
	}
	if w, n := quicwire.ConsumeVarintInt64(enc); w != int64(v) || n != len(want) {
		return fmt.Errorf("SIG=C19/consume64 ConsumeVarintInt64(%x) = (%d,%d), want (%d,%d)", enc, w, n, v, len(want))
	}
	return nil
}

// TestEnumValues: every value below 2^22 (quick) / 2^30 (thorough, split over shards).
func TestEnumValues(t *testing.T) {
	s := rt.S("enum-values").SetRule("every value v in [0, limit): AppendVarint/SizeVarint/ConsumeVarint against the RFC 9000 model; all enumerated values are distinct; non-trivial = every value (each exercises one encoding)")
	limit := uint64(1) << 22
	if rt.Thorough() {
		limit = 1 << 30
	}
	lo := limit / uint64(rt.Shards) * uint64(rt.Shard)
	hi := limit / uint64(rt.Shards) * uint64(rt.Shard+1)
	if rt.Shard == rt.Shards-1 {
		hi = limit
	}
	scratch := make([]byte, 0, 32)
	prefix := []byte{0xA5, 0x5A, 0xFF}
	for v := lo; v < hi; v++ {
		if err := checkValue(v, prefix, scratch); err != nil {
			t.Fatal(err)
		}
	}
	s.EvalN(int64(hi - lo))
	s.NontrivialEnum(int64(hi - lo))
	s.MarkExhaustive(fmt.Sprintf("all values below 2^%d", map[bool]int{false: 22, true: 30}[rt.Thorough()]))
	s.Sample(func() any { return map[string]any{"range": []uint64{lo, hi}} })
}

func boundaries() []uint64 {
	var out []uint64
	for _, b := range []uint64{0, 1 << 6, 1 << 8, 1 << 14, 1 << 16, 1 << 24, 1 << 30, 1 << 31, 1 << 32, 1 << 48, 1 << 56, 1 << 61, 1 << 62} {
		for d := int64(-2); d <= 2; d++ {
			v := b + uint64(d)
			if v <= quicwire.MaxVarint {
				out = append(out, v)
			}
		}
	}
	return out
}

func TestBoundaryAndRandomValues(t *testing.T) {
	s := rt.S("boundary-random-values").SetRule("class boundaries +-2 and drawn 62-bit values with drawn destination prefix and spare capacity; non-trivial = value >= 2^30 (outside the enumeration), distinct by value")
	scratch := make([]byte, 0, 64)
	for _, v := range boundaries() {
		if err := checkValue(v, []byte{1, 2, 3}, scratch); err != nil {
			t.Fatal(err)
		}
		s.Eval()
		if v >= 1<<30 {
			s.Nontrivial(binary.BigEndian.AppendUint64(nil, v))
		}
	}
	rt.Check(t, 20000, 1000000, func(t *rapid.T) {
		// pick the encoding class first, then the bit length inside it: rapid biases
		// integers towards small values, which would starve the 4- and 8-byte forms
		cls := rapid.SampledFrom([][2]int{{0, 6}, {7, 14}, {15, 30}, {31, 62}}).Draw(t, "class")
		bits := rapid.IntRange(cls[0], cls[1]).Draw(t, "bits")
		var v uint64
		if bits > 0 {
			v = rapid.Uint64Range(0, (uint64(1)<<bits)-1).Draw(t, "v") | 1<<(bits-1)
		}
		prefix := gen.Bytes(t, 0, 9, "prefix")
		spare := rapid.IntRange(0, 12).Draw(t, "spare")
		buf := make([]byte, len(prefix), len(prefix)+spare)
		copy(buf, prefix)
		s.Eval()
		s.Class(fmt.Sprintf("len%d", ref.VarintLen(v)))
		if err := checkValue(v, prefix, buf); err != nil {
			t.Fatal(err)
		}
		if v >= 1<<30 {
			s.Nontrivial(binary.BigEndian.AppendUint64(nil, v))
		}
		s.Sample(func() any { return map[string]any{"v": v, "prefix": rt.Hex(prefix), "spare": spare} })
	})
}

// checkDecode compares ConsumeVarint with the model on an arbitrary byte string
// that is followed in memory by guard bytes.
func checkDecode(b []byte) error {
	wv, wn, ok := ref.VarintDecode(b)
	v, n := quicwire.ConsumeVarint(b)
	if ok {
		if v != wv || n != wn {
			return fmt.Errorf("SIG=C19/decode ConsumeVarint(%x) = (%d,%d), want (%d,%d)", b, v, n, wv, wn)
		}
	} else if n >= 0 {
		return fmt.Errorf("SIG=C19/decode-short ConsumeVarint(%x) = (%d,%d), want failure (n<0)", b, v, n)
	}
	return nil
}

func TestDecodeAllShortStrings(t *testing.T) {
	s := rt.S("decode-all-short").SetRule("every byte string of length <= 2 (quick) / <= 3 (thorough) as decoder input; non-trivial = non-empty string; distinct by construction")
	maxLen := 2
	if rt.Thorough() {
		maxLen = 3
	}
	backing := []byte{0, 0, 0, 0xEE, 0xEE, 0xEE, 0xEE, 0xEE, 0xEE, 0xEE, 0xEE}
	var cnt int64
	for l := 0; l <= maxLen; l++ {
		total := 1 << (8 * l)
		for x := 0; x < total; x++ {
			if !rt.Mine(x) {
				continue
			}
			for i := 0; i < l; i++ {
				backing[i] = byte(x >> (8 * (l - 1 - i)))
			}
			for i := l; i < 3; i++ {
				backing[i] = 0xEE
			}
			if err := checkDecode(backing[:l:l]); err != nil {
				t.Fatal(err)
			}
			cnt++
		}
	}
	s.EvalN(cnt)
	if rt.Mine(0) {
		cnt-- // the empty string is the one trivial input
	}
	s.NontrivialEnum(cnt)
	s.MarkExhaustive(fmt.Sprintf("all byte strings of length <= %d", maxLen))
	s.Sample(func() any { return "all byte strings up to the stated length, e.g. 40, 4000, c0ffee" })
}

func TestDecodeTruncationsAndExtensions(t *testing.T) {
	s := rt.S("decode-truncations").SetRule("every truncation of the encoding of boundary and drawn values, and extensions by drawn bytes, and the encoding at the head of inputs of 254..131081 bytes; non-trivial = proper truncation or extension; distinct by (value, cut, tail)")
	vals := boundaries()
	rt.Check(t, 5000, 300000, func(t *rapid.T) {
		var v uint64
		if rapid.Bool().Draw(t, "boundary") {
			v = rapid.SampledFrom(vals).Draw(t, "bv")
		} else {
			v = rapid.Uint64Range(0, quicwire.MaxVarint).Draw(t, "v")
		}
		enc := ref.VarintEncode(v)
		tail := gen.Bytes(t, 0, 9, "tail")
		for cut := 0; cut <= len(enc); cut++ {
			s.Eval()
			if err := checkDecode(enc[:cut:cut]); err != nil {
				t.Fatal(err)
			}
			if cut < len(enc) {
				s.Nontrivial(enc, []byte{byte(cut)})
			}
		}
		ext := append(append([]byte{}, enc...), tail...)
		s.Eval()
		if err := checkDecode(ext); err != nil {
			t.Fatal(err)
		}
		if len(tail) > 0 {
			s.Nontrivial(enc, []byte{0xff}, tail)
		}
		// the encoding at the head of LONG inputs: total lengths around 256, 512, 65536 and beyond (a length kept in a narrow
		// integer wraps there), every residue of the total length modulo 256 below 9
		if gen.Uniform(t, 4, "longInput") == 0 {
			total := gen.Pick(t, []int{256, 512, 768, 4096, 65536, 131072}, "totalBase") + gen.UniformRange(t, -2, 9, "totalDelta")
			long := make([]byte, total)
			copy(long, enc)
			for i := len(enc); i < total; i++ {
				long[i] = byte(i * 7)
			}
			s.Eval()
			s.Class("long-input")
			if err := checkDecode(long); err != nil {
				t.Fatal(err)
			}
			s.Nontrivial(enc, []byte{0xfe, byte(total), byte(total >> 8), byte(total >> 16)})
		}
		// arbitrary bytes too
		arb := gen.Bytes(t, 0, 12, "arb")
		s.Eval()
		if err := checkDecode(arb); err != nil {
			t.Fatal(err)
		}
		s.Sample(func() any {
			return map[string]any{"v": v, "enc": rt.Hex(enc), "tail": rt.Hex(tail), "arb": rt.Hex(arb)}
		})
	})
}

// within reports whether sub lies inside the first n bytes of backing.
func within(sub, backing []byte, n int) bool {
	if len(sub) == 0 {
		return true
	}
	for i := 0; i+len(sub) <= n; i++ {
		if &backing[i] == &sub[0] {
			return true
		}
	}
	return false
}

var hugeLens = []uint64{1 << 31, 1<<31 - 1, 1 << 32, 1<<32 + 1, 1 << 33, 1<<62 - 1, 1 << 61, 1<<16 - 1, 1 << 16}

func TestVarintBytes(t *testing.T) {
	s := rt.S("varint-bytes").SetRule("ConsumeVarintBytes on buffers 'varint(declared) || payload' with declared in {remaining-1, remaining, remaining+1, 2^31.., 2^62-1, drawn} and guard bytes behind the slice; AppendVarintBytes round trip, and the zero-length payload given as nil, as an empty slice and as an empty sub-slice; non-trivial = declared != remaining; distinct by (declared, payload)")
	rt.Check(t, 20000, 600000, func(t *rapid.T) {
		payload := gen.Bytes(t, 0, 70, "payload")
		if gen.Uniform(t, 6, "longPayload") == 0 {
			// payloads around the 1->2->4 byte prefix boundaries and the 8/16-bit length boundaries
			n := gen.Pick(t, []int{63, 64, 253, 254, 255, 256, 257, 16383, 16384, 65535, 65536}, "longLen") + gen.Uniform(t, 3, "longDelta")
			payload = make([]byte, n)
			for i := range payload {
				payload[i] = byte(i*13 + n)
			}
		}
		rem := uint64(len(payload))
		kind := rapid.IntRange(0, 5).Draw(t, "kind")
		var declared uint64
		switch kind {
		case 0:
			declared = rem
		case 1:
			declared = rem + 1
		case 2:
			if rem > 0 {
				declared = rem - 1
			}
		case 3:
			declared = rapid.SampledFrom(hugeLens).Draw(t, "huge")
		case 4:
			declared = rapid.Uint64Range(0, quicwire.MaxVarint).Draw(t, "declared")
		case 5:
			declared = rapid.Uint64Range(0, rem+3).Draw(t, "near")
		}
		hdr := ref.VarintEncode(declared)
		if rapid.Bool().Draw(t, "widen") { // non-minimal length encodings are valid varints too
			w := rapid.SampledFrom([]int{2, 4, 8}).Draw(t, "w")
			if w > len(hdr) {
				h := make([]byte, w)
				x := declared
				for i := w - 1; i >= 0; i-- {
					h[i] = byte(x)
					x >>= 8
				}
				h[0] |= map[int]byte{2: 0x40, 4: 0x80, 8: 0xC0}[w]
				hdr = h
			}
		}
		guard := []byte{0xDE, 0xAD, 0xBE, 0xEF, 0xDE, 0xAD, 0xBE, 0xEF}
		backing := append(append(append([]byte{}, hdr...), payload...), guard...)
		n0 := len(hdr) + len(payload)
		in := backing[:n0] // capacity deliberately extends over the guard
		snapshot := append([]byte{}, backing...)
		s.Eval()
		s.Class(fmt.Sprintf("kind%d", kind))
		got, n := quicwire.ConsumeVarintBytes(in)
		if !bytes.Equal(backing, snapshot) {
			t.Fatalf("SIG=C19/varbytes-write input modified")
		}
		if declared > rem {
			if n >= 0 || got != nil {
				t.Fatalf("SIG=C19/varbytes-overlong ConsumeVarintBytes(%x) declared %d > remaining %d returned (%x,%d), want error", in, declared, rem, got, n)
			}
		} else {
			if n != len(hdr)+int(declared) || !bytes.Equal(got, payload[:declared]) {
				t.Fatalf("SIG=C19/varbytes ConsumeVarintBytes(%x) = (%x,%d), want (%x,%d)", in, got, n, payload[:declared], len(hdr)+int(declared))
			}
			if !within(got, backing, n0) {
				t.Fatalf("SIG=C19/varbytes-oob returned slice is not inside the input")
			}
		}
		if declared != rem {
			s.Nontrivial(hdr, payload)
		}
		// truncated header
		for cut := 0; cut < len(hdr); cut++ {
			if g, n := quicwire.ConsumeVarintBytes(hdr[:cut:cut]); n >= 0 || g != nil {
				t.Fatalf("SIG=C19/varbytes-trunc-hdr ConsumeVarintBytes(%x) = (%x,%d), want error", hdr[:cut], g, n)
			}
		}
		// round trip through the encoder, prefix preserved
		prefix := gen.Bytes(t, 0, 5, "prefix")
		enc := quicwire.AppendVarintBytes(append([]byte{}, prefix...), payload)
		wantEnc := append(append(append([]byte{}, prefix...), ref.VarintEncode(rem)...), payload...)
		if !bytes.Equal(enc, wantEnc) {
			t.Fatalf("SIG=C19/varbytes-append AppendVarintBytes = %x, want %x", enc, wantEnc)
		}
		back, n := quicwire.ConsumeVarintBytes(enc[len(prefix):])
		if n != len(enc)-len(prefix) || !bytes.Equal(back, payload) {
			t.Fatalf("SIG=C19/varbytes-roundtrip got (%x,%d)", back, n)
		}
		// the zero-length byte string has one encoding, whether it is handed over as nil, as an empty slice or as an empty
		// sub-slice of something else: the prefix followed by a single 00
		for zi, z := range [][]byte{nil, {}, payload[:0], make([]byte, 0, 8)} {
			e := quicwire.AppendVarintBytes(append([]byte{}, prefix...), z)
			if w := append(append([]byte{}, prefix...), 0); !bytes.Equal(e, w) {
				t.Fatalf("SIG=C19/varbytes-append-empty AppendVarintBytes(%x, empty payload kind %d) = %x, want %x", prefix, zi, e, w)
			}
			s.Eval()
		}
		// ... and, for payloads of 64 bytes and more, right afterwards payloads whose lengths are congruent to this one modulo
		// 2^8, 2^16 (anything remembered per length must remember the whole length)
		if len(payload) >= 64 {
			for _, add := range []int{256, 65536, 131072} {
				p2 := make([]byte, len(payload)+add)
				copy(p2, payload)
				enc2 := quicwire.AppendVarintBytes(nil, p2)
				hd := ref.VarintEncode(uint64(len(p2)))
				if len(enc2) != len(hd)+len(p2) || !bytes.Equal(enc2[:len(hd)], hd) || !bytes.Equal(enc2[len(hd):], p2) {
					t.Fatalf("SIG=C19/varbytes-append AppendVarintBytes of %d bytes right after one of %d bytes: %d bytes starting %x, want %d bytes starting %x", len(p2), len(payload), len(enc2), enc2[:8], len(hd)+len(p2), hd)
				}
				s.Eval()
			}
		}
		s.Sample(func() any { return map[string]any{"declared": declared, "remaining": rem, "hdr": rt.Hex(hdr)} })
	})
}

func TestUint8Bytes(t *testing.T) {
	s := rt.S("uint8-bytes").SetRule("ConsumeUint8Bytes for every declared length 0..255 against drawn remaining lengths (guard bytes behind); AppendUint8Bytes round trip for every length 0..255 and for the zero-length payload given as nil, empty slice, empty sub-slice; non-trivial = declared != remaining; distinct by (declared, remaining, payload)")
	rt.Check(t, 8000, 200000, func(t *rapid.T) {
		payload := gen.Bytes(t, 0, 300, "payload")
		declared := rapid.IntRange(0, 255).Draw(t, "declared")
		if rapid.Bool().Draw(t, "near") {
			d := len(payload) + rapid.IntRange(-1, 1).Draw(t, "delta")
			if d >= 0 && d <= 255 {
				declared = d
			}
		}
		guard := []byte{0xDE, 0xAD, 0xBE, 0xEF}
		backing := append(append([]byte{byte(declared)}, payload...), guard...)
		in := backing[:1+len(payload)]
		s.Eval()
		got, n := quicwire.ConsumeUint8Bytes(in)
		if declared > len(payload) {
			if n >= 0 || got != nil {
				t.Fatalf("SIG=C19/u8bytes-overlong declared %d remaining %d returned (%x,%d)", declared, len(payload), got, n)
			}
		} else if n != 1+declared || !bytes.Equal(got, payload[:declared]) || !within(got, backing, len(in)) {
			t.Fatalf("SIG=C19/u8bytes ConsumeUint8Bytes(%x) = (%x,%d)", in, got, n)
		}
		if declared != len(payload) {
			s.Nontrivial([]byte{byte(declared)}, payload)
		}
		if g, n := quicwire.ConsumeUint8Bytes(nil); n >= 0 || g != nil {
			t.Fatalf("SIG=C19/u8bytes-empty")
		}
		if len(payload) <= 255 {
			prefix := gen.Bytes(t, 0, 5, "prefix")
			enc := quicwire.AppendUint8Bytes(append([]byte{}, prefix...), payload)
			want := append(append(append([]byte{}, prefix...), byte(len(payload))), payload...)
			if !bytes.Equal(enc, want) {
				t.Fatalf("SIG=C19/u8bytes-append %x want %x", enc, want)
			}
			back, n := quicwire.ConsumeUint8Bytes(enc[len(prefix):])
			if n != 1+len(payload) || !bytes.Equal(back, payload) {
				t.Fatalf("SIG=C19/u8bytes-roundtrip")
			}
			for zi, z := range [][]byte{nil, {}, payload[:0], make([]byte, 0, 8)} {
				e := quicwire.AppendUint8Bytes(append([]byte{}, prefix...), z)
				if w := append(append([]byte{}, prefix...), 0); !bytes.Equal(e, w) {
					t.Fatalf("SIG=C19/u8bytes-append-empty AppendUint8Bytes(%x, empty payload kind %d) = %x, want %x", prefix, zi, e, w)
				}
				s.Eval()
			}
		}
		s.Sample(func() any { return map[string]any{"declared": declared, "remaining": len(payload)} })
	})
}

func TestFixedInts(t *testing.T) {
	s := rt.S("fixed-ints").SetRule("ConsumeUint32/ConsumeUint64 on drawn byte strings of length 0..12: value = big-endian prefix, failure exactly when too short; non-trivial = every case; distinct by input")
	rt.Check(t, 5000, 100000, func(t *rapid.T) {
		b := gen.Bytes(t, 0, 12, "b")
		s.Eval()
		s.Nontrivial(b)
		v32, n32 := quicwire.ConsumeUint32(b)
		if len(b) < 4 {
			if n32 >= 0 {
				t.Fatalf("SIG=C19/u32-short ConsumeUint32(%x) n=%d", b, n32)
			}
		} else if n32 != 4 || v32 != binary.BigEndian.Uint32(b) {
			t.Fatalf("SIG=C19/u32 ConsumeUint32(%x) = (%d,%d)", b, v32, n32)
		}
		v64, n64 := quicwire.ConsumeUint64(b)
		if len(b) < 8 {
			if n64 >= 0 {
				t.Fatalf("SIG=C19/u64-short ConsumeUint64(%x) n=%d", b, n64)
			}
		} else if n64 != 8 || v64 != binary.BigEndian.Uint64(b) {
			t.Fatalf("SIG=C19/u64 ConsumeUint64(%x) = (%d,%d)", b, v64, n64)
		}
		s.Sample(func() any { return rt.Hex(b) })
	})
}

// TestInPlaceFraming: the payload already lies in the destination's spare capacity, right behind where its length prefix
// will go (framing a message in place); Append*Bytes must produce prefix || payload all the same.
func TestInPlaceFraming(t *testing.T) {
	s := rt.S("in-place-framing").SetRule("AppendUint8Bytes / AppendVarintBytes where the payload slice aliases the destination's spare capacity at the offset it will be copied to (and at drawn other offsets, overlapping or not); oracle: result == prefix || length || payload-as-it-was; non-trivial = every case; distinct by (payload, offsets)")
	rt.Check(t, 3000, 100000, func(t *rapid.T) {
		payload := gen.Bytes(t, 0, 120, "payload")
		prefix := gen.Bytes(t, 0, 6, "prefix")
		hdr := ref.VarintLen(uint64(len(payload)))
		// 0 = exactly where it will land; > 0 = further back (overlapping its landing zone or not). A payload that starts
		// INSIDE the bytes where the length prefix is written is the caller's mistake and not generated.
		shift := gen.Pick(t, []int{0, 0, 1, 2, 3, 8, 40}, "shift")
		s.Eval()
		s.Nontrivial(payload, prefix, []byte{byte(shift + 1)})
		for _, u8 := range []bool{true, false} {
			h := hdr
			if u8 {
				h = 1
			}
			off := len(prefix) + h + shift
			if off < len(prefix) {
				off = len(prefix)
			}
			buf := make([]byte, off+len(payload)+64)
			copy(buf, prefix)
			copy(buf[off:], payload)
			v := buf[off : off+len(payload)]
			var got, want []byte
			if u8 {
				want = append(append(append([]byte{}, prefix...), byte(len(payload))), payload...)
				got = quicwire.AppendUint8Bytes(buf[:len(prefix)], v)
			} else {
				want = append(append(append([]byte{}, prefix...), ref.VarintEncode(uint64(len(payload)))...), payload...)
				got = quicwire.AppendVarintBytes(buf[:len(prefix)], v)
			}
			if !bytes.Equal(got, want) {
				t.Fatalf("SIG=C19/in-place-framing uint8=%v shift=%d: payload aliasing the destination's spare capacity gives %x, want %x", u8, shift, got, want)
			}
		}
		s.Sample(func() any {
			return map[string]any{"payload_len": len(payload), "prefix_len": len(prefix), "shift": shift}
		})
	})
}

// TestOutOfRangeThenContinue: a value above 2^62-1 is refused with the documented panic; a caller that recovers
// must find the package fully usable afterwards (no lock left held, no state left behind).
func TestOutOfRangeThenContinue(t *testing.T) {
	s := rt.S("out-of-range-then-continue").SetRule("AppendVarint / SizeVarint / AppendVarintBytes-like calls with a value above 2^62-1 (documented panic, recovered), followed by ordinary encode/decode calls which must return (20 s wall-clock guard against a deadlock - the calls take nanoseconds) and be correct; non-trivial = every (bad value, following value) pair; distinct by construction")
	bad := []uint64{1 << 62, 1<<62 + 1, 1<<63 - 1, 1 << 63, 1<<64 - 1}
	for _, bv := range bad {
		for _, v := range boundaries() {
			for _, f := range []func(){func() { quicwire.AppendVarint(nil, bv) }, func() { quicwire.SizeVarint(bv) }} {
				func() {
					defer func() { _ = recover() }()
					f()
				}()
			}
			done := make(chan error, 1)
			go func() { done <- checkValue(v, []byte{9}, make([]byte, 0, 16)) }()
			s.Eval()
			s.NontrivialEnum(1)
			select {
			case err := <-done:
				if err != nil {
					rt.Report(t, "C19/after-out-of-range", "", nil, "after a recovered out-of-range call: %v", err)
				}
			case <-time.After(20 * time.Second):
				rt.Report(t, "C19/after-out-of-range-blocks", "", nil, "after AppendVarint(%d) panicked (recovered), AppendVarint/ConsumeVarint of %d did not return within 20 s", bv, v)
				return
			}
		}
	}
	s.Sample(func() any { return map[string]any{"bad_values": bad} })
}

// FuzzVarint: coverage-guided differential against the model (thorough tier).
func FuzzVarint(f *testing.F) {
	for _, v := range boundaries() {
		f.Add(ref.VarintEncode(v))
	}
	f.Add([]byte{})
	f.Add([]byte{0xff, 0xff, 0xff, 0xff, 0xff, 0xff, 0xff, 0xff, 1, 2, 3})
	f.Fuzz(func(t *testing.T, b []byte) {
		if err := checkDecode(b); err != nil {
			t.Fatal(err)
		}
		wv, wn, ok := ref.VarintDecode(b)
		got, n := quicwire.ConsumeVarintBytes(b)
		if !ok || wv > uint64(len(b)-wn) {
			if n >= 0 || got != nil {
				t.Fatalf("SIG=C19/fuzz-varbytes ConsumeVarintBytes(%x) = (%x,%d), want error", b, got, n)
			}
		} else if n != wn+int(wv) || !bytes.Equal(got, b[wn:wn+int(wv)]) {
			t.Fatalf("SIG=C19/fuzz-varbytes ConsumeVarintBytes(%x) = (%x,%d)", b, got, n)
		}
		if ok {
			enc := quicwire.AppendVarint(nil, wv)
			if !bytes.Equal(enc, ref.VarintEncode(wv)) {
				t.Fatalf("SIG=C19/fuzz-append %d: %x", wv, enc)
			}
		}
	})
}
