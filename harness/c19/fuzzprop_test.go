package c19

import (
	"testing"

	"verifharness/internal/rt"
)

// The rapid properties of this package under the native, coverage-guided fuzzer (thorough tier): the fuzzer's
// byte string is the stream the property draws from (rt.FuzzProp), so generators, oracle and failure
// signatures are exactly those of the named test.

func FuzzPropBoundaryAndRandomValues(f *testing.F) {
	rt.FuzzProp(f, rt.Capture(TestBoundaryAndRandomValues))
}
func FuzzPropTruncationsAndExtensions(f *testing.F) {
	rt.FuzzProp(f, rt.Capture(TestDecodeTruncationsAndExtensions))
}
func FuzzPropVarintBytes(f *testing.F)    { rt.FuzzProp(f, rt.Capture(TestVarintBytes)) }
func FuzzPropUint8Bytes(f *testing.F)     { rt.FuzzProp(f, rt.Capture(TestUint8Bytes)) }
func FuzzPropInPlaceFraming(f *testing.F) { rt.FuzzProp(f, rt.Capture(TestInPlaceFraming)) }
