// C04 — wire codecs round-trip, re-encode stably and keep request types apart.
package c04

import (
	"bytes"
	"encoding/hex"
	"encoding/json"
	"fmt"
	"os"
	"path/filepath"
	"reflect"
	"strings"
	"testing"

	"github.com/cloudflare/pat-go/tokens"
	"github.com/cloudflare/pat-go/tokens/batched"
	"github.com/cloudflare/pat-go/tokens/type1"
	"github.com/cloudflare/pat-go/tokens/type2"
	"github.com/cloudflare/pat-go/tokens/type3"
	"github.com/cloudflare/pat-go/tokens/type5"
	"pgregory.net/rapid"

	"verifharness/internal/gen"
	"verifharness/internal/ref"
	"verifharness/internal/rt"
)

func TestMain(m *testing.M) { rt.Main(m) }

// A codec adapts one wire structure: how to draw a well-formed value (as its
// reference encoding), how pat-go decodes, what the canonical encoding of a
// decoded object is (computed by the reference encoder from the object's
// public fields, or by a reference parser when the fields are private) and
// what pat-go's Marshal returns for that object.
type codec struct {
	name      string
	genValue  func(t *rapid.T) []byte                     // reference encoding of a drawn well-formed value
	build     func(t *rapid.T, enc []byte) ([]byte, bool) // pat-go Marshal of the same value built from fields (nil,false if no constructor)
	decode    func(b []byte) (any, bool)                  // fresh object
	into      func(obj any, b []byte) bool                // decode into an existing object (request types), nil otherwise
	newObj    func() any
	canonical func(obj any, accepted []byte) ([]byte, error) // canonical encoding of the decoded value
	marshal   func(obj any) []byte                           // obj.Marshal(), nil if the structure has none
	fields    []int                                          // offsets of tag/length fields (mutation hints)
}

func fixedLen(name string, b []byte, n int) error {
	if len(b) != n {
		return fmt.Errorf("decoded %s has %d bytes, want %d", name, len(b), n)
	}
	return nil
}

func tokenCodec(name string, typ uint16, nk int, dec func([]byte) (tokens.Token, error)) codec {
	return codec{
		name: name,
		genValue: func(t *rapid.T) []byte {
			return ref.EncodeToken(typ, gen.Bytes32().Draw(t, "nonce"), gen.Bytes32().Draw(t, "ctx"), gen.Bytes32().Draw(t, "kid"),
				rapid.SliceOfN(rapid.Byte(), nk, nk).Draw(t, "auth"))
		},
		build: func(t *rapid.T, enc []byte) ([]byte, bool) {
			tok := tokens.Token{TokenType: typ, Nonce: enc[2:34], Context: enc[34:66], KeyID: enc[66:98], Authenticator: enc[98:]}
			if !bytes.Equal(tok.AuthenticatorInput(), enc[:98]) {
				return []byte("AuthenticatorInput differs from type||nonce||context||key id"), true
			}
			return tok.Marshal(), true
		},
		decode: func(b []byte) (any, bool) { tok, err := dec(b); return tok, err == nil },
		canonical: func(obj any, _ []byte) ([]byte, error) {
			tok := obj.(tokens.Token)
			for _, e := range []error{fixedLen("nonce", tok.Nonce, 32), fixedLen("context", tok.Context, 32), fixedLen("key id", tok.KeyID, 32), fixedLen("authenticator", tok.Authenticator, nk)} {
				if e != nil {
					return nil, e
				}
			}
			return ref.EncodeToken(tok.TokenType, tok.Nonce, tok.Context, tok.KeyID, tok.Authenticator), nil
		},
		marshal: func(obj any) []byte { return obj.(tokens.Token).Marshal() },
		fields:  []int{0, 1},
	}
}

func originList() *rapid.Generator[[]string] {
	name := rapid.StringMatching(`[a-z0-9.\-]{1,20}`)
	return rapid.SliceOfN(name, 0, 4)
}

var codecs = []codec{
	{
		name: "TokenChallenge",
		genValue: func(t *rapid.T) []byte {
			typ := rapid.SampledFrom([]uint16{1, 2, 3, 5, 0, 0xffff, 0x1234}).Draw(t, "type")
			issuer := rapid.StringMatching(`[a-z0-9.\-]{1,40}`).Draw(t, "issuer")
			if rapid.IntRange(0, 9).Draw(t, "long") == 0 {
				issuer = strings.Repeat("x", rapid.IntRange(1, 300).Draw(t, "issuerlen"))
			}
			nonce := []byte{}
			if rapid.Bool().Draw(t, "hasNonce") {
				nonce = gen.Bytes32().Draw(t, "nonce")
			} else if rapid.IntRange(0, 3).Draw(t, "odd") == 0 {
				nonce = gen.Bytes(t, 0, 32, "oddnonce")
			}
			return ref.EncodeChallenge(typ, issuer, nonce, originList().Draw(t, "origins"))
		},
		build: func(t *rapid.T, enc []byte) ([]byte, bool) {
			c, err := parseChallenge(enc)
			if err != nil {
				return nil, false
			}
			return c.Marshal(), true
		},
		decode: func(b []byte) (any, bool) { c, err := tokens.UnmarshalTokenChallenge(b); return c, err == nil },
		canonical: func(obj any, _ []byte) ([]byte, error) {
			c := obj.(tokens.TokenChallenge)
			if c.IssuerName == "" {
				return nil, fmt.Errorf("decoder accepted an empty issuer name (issuer_name<1..2^16-1>)")
			}
			// OriginInfo is compared through its comma-joined wire form: nil, [] and [""] are one wire value.
			return ref.EncodeChallenge(c.TokenType, c.IssuerName, c.RedemptionNonce, c.OriginInfo), nil
		},
		marshal: func(obj any) []byte { return obj.(tokens.TokenChallenge).Marshal() },
		fields:  []int{0, 1, 2, 3},
	},
	tokenCodec("Token/type1", 1, 48, type1.UnmarshalPrivateToken),
	tokenCodec("Token/type2", 2, 256, type2.UnmarshalToken),
	tokenCodec("Token/type3", 3, 256, type3.UnmarshalToken),
	tokenCodec("Token/type5", 5, 64, type5.UnmarshalBatchedPrivateToken),
	{
		name: "TokenRequest/type1",
		genValue: func(t *rapid.T) []byte {
			return ref.EncodeBasicRequest(1, rapid.Byte().Draw(t, "kid"), rapid.SliceOfN(rapid.Byte(), 49, 49).Draw(t, "blinded"))
		},
		build: func(t *rapid.T, enc []byte) ([]byte, bool) {
			r := &type1.BasicPrivateTokenRequest{TokenKeyID: enc[2], BlindedReq: enc[3:]}
			return r.Marshal(), true
		},
		newObj: func() any { return new(type1.BasicPrivateTokenRequest) },
		into:   func(o any, b []byte) bool { return o.(*type1.BasicPrivateTokenRequest).Unmarshal(b) },
		canonical: func(obj any, _ []byte) ([]byte, error) {
			r := obj.(*type1.BasicPrivateTokenRequest)
			if err := fixedLen("blinded element", r.BlindedReq, 49); err != nil {
				return nil, err
			}
			if r.Type() != 1 || r.TruncatedTokenKeyID() != r.TokenKeyID {
				return nil, fmt.Errorf("Type()/TruncatedTokenKeyID() disagree with the fields")
			}
			return ref.EncodeBasicRequest(1, r.TokenKeyID, r.BlindedReq), nil
		},
		marshal: func(obj any) []byte { return obj.(*type1.BasicPrivateTokenRequest).Marshal() },
		fields:  []int{0, 1, 2},
	},
	{
		name: "TokenRequest/type2",
		genValue: func(t *rapid.T) []byte {
			return ref.EncodeBasicRequest(2, rapid.Byte().Draw(t, "kid"), rapid.SliceOfN(rapid.Byte(), 256, 256).Draw(t, "blinded"))
		},
		build: func(t *rapid.T, enc []byte) ([]byte, bool) {
			r := &type2.BasicPublicTokenRequest{TokenKeyID: enc[2], BlindedReq: enc[3:]}
			return r.Marshal(), true
		},
		newObj: func() any { return new(type2.BasicPublicTokenRequest) },
		into:   func(o any, b []byte) bool { return o.(*type2.BasicPublicTokenRequest).Unmarshal(b) },
		canonical: func(obj any, _ []byte) ([]byte, error) {
			r := obj.(*type2.BasicPublicTokenRequest)
			if err := fixedLen("blinded message", r.BlindedReq, 256); err != nil {
				return nil, err
			}
			if r.Type() != 2 || r.TruncatedTokenKeyID() != r.TokenKeyID {
				return nil, fmt.Errorf("Type()/TruncatedTokenKeyID() disagree with the fields")
			}
			return ref.EncodeBasicRequest(2, r.TokenKeyID, r.BlindedReq), nil
		},
		marshal: func(obj any) []byte { return obj.(*type2.BasicPublicTokenRequest).Marshal() },
		fields:  []int{0, 1, 2},
	},
	{
		name: "TokenRequest/type3",
		genValue: func(t *rapid.T) []byte {
			n := rapid.IntRange(1, 400).Draw(t, "ctlen")
			if rapid.IntRange(0, 19).Draw(t, "max") == 0 {
				n = 65535
			}
			ct := bytes.Repeat([]byte{rapid.Byte().Draw(t, "fill")}, n)
			copy(ct, gen.Bytes(t, 0, 40, "cthead"))
			return ref.EncodeRateLimitedRequest(rapid.SliceOfN(rapid.Byte(), 49, 49).Draw(t, "rk"), gen.Bytes32().Draw(t, "nkid"), ct,
				rapid.SliceOfN(rapid.Byte(), 96, 96).Draw(t, "sig"))
		},
		build: func(t *rapid.T, enc []byte) ([]byte, bool) {
			n := int(enc[83])<<8 | int(enc[84])
			r := &type3.RateLimitedTokenRequest{RequestKey: enc[2:51], NameKeyID: enc[51:83], EncryptedTokenRequest: enc[85 : 85+n], Signature: enc[85+n:]}
			return r.Marshal(), true
		},
		newObj: func() any { return new(type3.RateLimitedTokenRequest) },
		into:   func(o any, b []byte) bool { return o.(*type3.RateLimitedTokenRequest).Unmarshal(b) },
		canonical: func(obj any, _ []byte) ([]byte, error) {
			r := obj.(*type3.RateLimitedTokenRequest)
			if err := fixedLen("request key", r.RequestKey, 49); err != nil {
				return nil, err
			}
			if err := fixedLen("name key id", r.NameKeyID, 32); err != nil {
				return nil, err
			}
			if len(r.EncryptedTokenRequest) == 0 {
				return nil, fmt.Errorf("decoder accepted an empty encrypted_token_request<1..2^16-1>")
			}
			if r.Type() != 3 {
				return nil, fmt.Errorf("Type() != 3")
			}
			// (a missing signature is C03/C07's business; the law below is about re-encoding what was decoded)
			return ref.EncodeRateLimitedRequest(r.RequestKey, r.NameKeyID, r.EncryptedTokenRequest, r.Signature), nil
		},
		marshal: func(obj any) []byte { return obj.(*type3.RateLimitedTokenRequest).Marshal() },
		fields:  []int{0, 1, 83, 84},
	},
	{
		name: "TokenRequest/type5",
		genValue: func(t *rapid.T) []byte {
			n := rapid.IntRange(0, 70).Draw(t, "elements")
			if rapid.IntRange(0, 19).Draw(t, "big") == 0 {
				n = rapid.SampledFrom([]int{1, 2, 63, 64, 511, 512, 513}).Draw(t, "bign")
			}
			els := make([][]byte, n)
			fill := rapid.Byte().Draw(t, "fill")
			for i := range els {
				els[i] = bytes.Repeat([]byte{fill + byte(i)}, 32)
			}
			if n > 0 {
				copy(els[0], gen.Bytes(t, 0, 32, "el0"))
			}
			return ref.EncodeBatchedPrivateRequest(rapid.Byte().Draw(t, "kid"), els)
		},
		build: func(t *rapid.T, enc []byte) ([]byte, bool) {
			_, n, _ := ref.VarintDecode(enc[3:])
			body := enc[3+n:]
			els := make([][]byte, len(body)/32)
			for i := range els {
				els[i] = body[32*i : 32*i+32]
			}
			r := &type5.BatchedPrivateTokenRequest{TokenKeyID: enc[2], BlindedReq: els}
			return r.Marshal(), true
		},
		newObj: func() any { return new(type5.BatchedPrivateTokenRequest) },
		into:   func(o any, b []byte) bool { return o.(*type5.BatchedPrivateTokenRequest).Unmarshal(b) },
		canonical: func(obj any, _ []byte) ([]byte, error) {
			r := obj.(*type5.BatchedPrivateTokenRequest)
			for i, e := range r.BlindedReq {
				if err := fixedLen(fmt.Sprintf("element %d", i), e, 32); err != nil {
					return nil, err
				}
			}
			if r.Type() != 5 || r.TruncatedTokenKeyID() != r.TokenKeyID {
				return nil, fmt.Errorf("Type()/TruncatedTokenKeyID() disagree with the fields")
			}
			return ref.EncodeBatchedPrivateRequest(r.TokenKeyID, r.BlindedReq), nil
		},
		marshal: func(obj any) []byte { return obj.(*type5.BatchedPrivateTokenRequest).Marshal() },
		fields:  []int{0, 1, 2, 3, 4},
	},
	{
		name: "InnerTokenRequest",
		genValue: func(t *rapid.T) []byte {
			blocks := rapid.IntRange(0, 6).Draw(t, "blocks")
			if rapid.IntRange(0, 29).Draw(t, "huge") == 0 {
				blocks = 2047
			}
			po := bytes.Repeat([]byte{0}, 32*blocks)
			copy(po, rapid.SliceOfN(rapid.ByteRange(1, 255), 0, 32*blocks).Draw(t, "origin"))
			return ref.EncodeInnerRequest(rapid.Byte().Draw(t, "kid"), rapid.SliceOfN(rapid.Byte(), 256, 256).Draw(t, "blinded"), po)
		},
		newObj: func() any { return new(type3.InnerTokenRequest) },
		into:   func(o any, b []byte) bool { return o.(*type3.InnerTokenRequest).Unmarshal(b) },
		canonical: func(_ any, accepted []byte) ([]byte, error) {
			// private fields: the canonical encoding is the reference parse of what was accepted
			if len(accepted) < 259 {
				return nil, fmt.Errorf("decoder accepted %d bytes, fewer than the fixed part", len(accepted))
			}
			n := int(accepted[257])<<8 | int(accepted[258])
			if len(accepted) < 259+n {
				return nil, fmt.Errorf("decoder accepted a padded origin announced as %d bytes with %d remaining", n, len(accepted)-259)
			}
			return ref.EncodeInnerRequest(accepted[0], accepted[1:257], accepted[259:259+n]), nil
		},
		marshal: func(obj any) []byte { return obj.(*type3.InnerTokenRequest).Marshal() },
		fields:  []int{0, 257, 258},
	},
	{
		name: "EncapKey",
		genValue: func(t *rapid.T) []byte {
			if rapid.Bool().Draw(t, "fromSeed") {
				k, err := type3.CreatePrivateEncapKeyFromSeed(gen.Seed().Draw(t, "seed"))
				if err != nil {
					t.Fatalf("CreatePrivateEncapKeyFromSeed: %v", err)
				}
				return k.Public().Marshal() // value built by pat-go itself; compared with the layout below in canonical()
			}
			return ref.EncodeEncapKey(rapid.Byte().Draw(t, "id"), 0x0020, rapid.SliceOfN(rapid.Byte(), 32, 32).Draw(t, "pk"), 0x0001, 0x0001)
		},
		decode: func(b []byte) (any, bool) { k, err := type3.UnmarshalEncapKey(b); return k, err == nil },
		canonical: func(_ any, accepted []byte) ([]byte, error) {
			if len(accepted) < 3 {
				return nil, fmt.Errorf("accepted %d bytes", len(accepted))
			}
			kem := uint16(accepted[1])<<8 | uint16(accepted[2])
			pkLen := map[uint16]int{0x0010: 65, 0x0012: 133, 0x0020: 32, 0x0021: 56}[kem]
			if pkLen == 0 || len(accepted) < 3+pkLen+4 {
				return nil, fmt.Errorf("accepted an encoding with KEM %#x and %d bytes", kem, len(accepted))
			}
			return append([]byte{}, accepted[:3+pkLen+4]...), nil
		},
		marshal: func(obj any) []byte { return obj.(type3.EncapKey).Marshal() },
		fields:  []int{0, 1, 2, 35, 36, 37, 38},
	},
	{
		name: "BatchTokenRequest",
		genValue: func(t *rapid.T) []byte {
			n := rapid.IntRange(1, 6).Draw(t, "n")
			var reqs [][]byte
			for i := 0; i < n; i++ {
				if rapid.Bool().Draw(t, "t1") {
					reqs = append(reqs, ref.EncodeBasicRequest(1, rapid.Byte().Draw(t, "kid"), rapid.SliceOfN(rapid.Byte(), 49, 49).Draw(t, "b1")))
				} else {
					reqs = append(reqs, ref.EncodeBasicRequest(2, rapid.Byte().Draw(t, "kid"), rapid.SliceOfN(rapid.Byte(), 256, 256).Draw(t, "b2")))
				}
			}
			return ref.EncodeBatchRequest(reqs)
		},
		build: func(t *rapid.T, enc []byte) ([]byte, bool) {
			reqs, err := parseBatch(enc)
			if err != nil {
				return nil, false
			}
			var list []tokens.TokenRequestWithDetails
			for _, r := range reqs {
				if r[1] == 1 {
					list = append(list, &type1.BasicPrivateTokenRequest{TokenKeyID: r[2], BlindedReq: r[3:]})
				} else {
					list = append(list, &type2.BasicPublicTokenRequest{TokenKeyID: r[2], BlindedReq: r[3:]})
				}
			}
			br, err := batched.NewBasicClient().CreateTokenRequest(list)
			if err != nil {
				return []byte("CreateTokenRequest failed: " + err.Error()), true
			}
			return br.Marshal(), true
		},
		newObj: func() any { return new(batched.BatchedTokenRequest) },
		into:   func(o any, b []byte) bool { return o.(*batched.BatchedTokenRequest).Unmarshal(b) },
		canonical: func(obj any, accepted []byte) ([]byte, error) {
			// private fields: the decoded value is observed through Marshal; it must be a canonical
			// batch (strict reference parse, re-encoding identical) whose requests are the ones read from the accepted bytes
			m := obj.(*batched.BatchedTokenRequest).Marshal()
			reqs, err := parseBatch(m)
			if err != nil {
				return nil, fmt.Errorf("Marshal() of the decoded batch is not a canonical batch encoding: %v", err)
			}
			_, hn, ok := ref.VarintDecode(accepted)
			if !ok {
				return nil, fmt.Errorf("decoder accepted bytes without a length prefix")
			}
			body := bytes.Join(reqs, nil)
			if len(accepted) < hn+len(body) || !bytes.Equal(accepted[hn:hn+len(body)], body) {
				return nil, fmt.Errorf("decoded requests are not the ones in the accepted bytes")
			}
			return ref.EncodeBatchRequest(reqs), nil
		},
		marshal: func(obj any) []byte { return obj.(*batched.BatchedTokenRequest).Marshal() },
		fields:  []int{0, 1, 2, 3, 4, 5},
	},
	{
		name: "BatchTokenResponse",
		genValue: func(t *rapid.T) []byte {
			n := rapid.IntRange(0, 6).Draw(t, "n")
			var es []ref.BatchEntry
			for i := 0; i < n; i++ {
				switch rapid.IntRange(0, 2).Draw(t, "kind") {
				case 0:
					es = append(es, ref.BatchEntry{})
				case 1:
					es = append(es, ref.BatchEntry{Type: 1, Response: rapid.SliceOfN(rapid.Byte(), 145, 145).Draw(t, "r1")})
				case 2:
					es = append(es, ref.BatchEntry{Type: 2, Response: rapid.SliceOfN(rapid.Byte(), 256, 256).Draw(t, "r2")})
				}
			}
			return ref.EncodeBatchResponse(es)
		},
		decode: func(b []byte) (any, bool) { l, err := batched.UnmarshalBatchedTokenResponses(b); return l, err == nil },
		canonical: func(obj any, _ []byte) ([]byte, error) {
			var es []ref.BatchEntry
			for i, r := range obj.([][]byte) {
				switch len(r) {
				case 0:
					es = append(es, ref.BatchEntry{})
				case 145:
					es = append(es, ref.BatchEntry{Type: 1, Response: r})
				case 256:
					es = append(es, ref.BatchEntry{Type: 2, Response: r})
				default:
					return nil, fmt.Errorf("decoded entry %d has %d bytes: neither absent nor a type-1/2 response", i, len(r))
				}
			}
			return ref.EncodeBatchResponse(es), nil
		},
		fields: []int{0, 1, 2, 3, 4},
	},
}

func parseChallenge(enc []byte) (tokens.TokenChallenge, error) {
	// reference parse of a reference encoding (used only to rebuild the value from fields)
	c := tokens.TokenChallenge{TokenType: uint16(enc[0])<<8 | uint16(enc[1])}
	p := 2
	n := int(enc[p])<<8 | int(enc[p+1])
	c.IssuerName = string(enc[p+2 : p+2+n])
	p += 2 + n
	n = int(enc[p])
	c.RedemptionNonce = enc[p+1 : p+1+n]
	p += 1 + n
	n = int(enc[p])<<8 | int(enc[p+1])
	oi := string(enc[p+2 : p+2+n])
	if oi != "" {
		c.OriginInfo = strings.Split(oi, ",")
	}
	return c, nil
}

// parseBatch is the strict reference parser of a canonical BatchTokenRequest.
func parseBatch(b []byte) ([][]byte, error) {
	l, n, ok := ref.VarintDecode(b)
	if !ok || n != ref.VarintLen(l) {
		return nil, fmt.Errorf("bad or non-minimal length prefix")
	}
	if uint64(len(b)-n) != l {
		return nil, fmt.Errorf("length prefix %d, body %d", l, len(b)-n)
	}
	var out [][]byte
	p := n
	for p < len(b) {
		if p+2 > len(b) {
			return nil, fmt.Errorf("truncated type tag")
		}
		rl := ref.BasicRequestLen(uint16(b[p])<<8 | uint16(b[p+1]))
		if rl < 0 || p+rl > len(b) {
			return nil, fmt.Errorf("bad element at %d", p)
		}
		out = append(out, b[p:p+rl])
		p += rl
	}
	return out, nil
}

func (c codec) dec(b []byte) (any, bool) {
	if c.decode != nil {
		return c.decode(b)
	}
	o := c.newObj()
	return o, c.into(o, b)
}

// acceptedLaw checks sentence 2 of the property for one accepted byte string.
func (c codec) acceptedLaw(obj any, b []byte) error {
	can, err := c.canonical(obj, b)
	if err != nil {
		return fmt.Errorf("malformed decoded value: %v", err)
	}
	if len(can) > len(b) {
		return fmt.Errorf("canonical encoding (%d bytes) is longer than the accepted input (%d bytes): %s", len(can), len(b), rt.Hex(b))
	}
	obj2, ok := c.dec(can)
	if !ok {
		return fmt.Errorf("canonical encoding of the decoded value is rejected: %s", rt.Hex(can))
	}
	can2, err := c.canonical(obj2, can)
	if err != nil || !bytes.Equal(can2, can) {
		return fmt.Errorf("canonical encoding decodes to a different value (%v)", err)
	}
	if c.marshal != nil {
		if m := c.marshal(obj); !bytes.Equal(m, can) {
			return fmt.Errorf("Marshal() after decoding returns %s, canonical encoding is %s", rt.Hex(m), rt.Hex(can))
		}
	}
	return nil
}

func TestRoundTrip(t *testing.T) {
	for _, c := range codecs {
		c := c
		s := rt.S("roundtrip/" + c.name).SetRule("well-formed value drawn field by field -> reference encoding; pat-go Marshal of the same value must equal it, pat-go decode of it must give the value back (compared through the reference encoding of the decoded fields, fixed-length fields checked); non-trivial = every value; distinct by encoding")
		t.Run(strings.ReplaceAll(c.name, "/", "_"), func(t *testing.T) {
			rt.Check(t, 400, 40000, func(t *rapid.T) {
				enc := c.genValue(t)
				s.Eval()
				if c.build != nil {
					if m, ok := c.build(t, enc); ok && !bytes.Equal(m, enc) {
						rt.Fail(t, "C04/"+c.name+"/encode", "Marshal of a well-formed value = %s, reference encoding = %s", rt.Hex(m), rt.Hex(enc))
						return
					}
				}
				obj, ok := c.dec(enc)
				if !ok {
					rt.Fail(t, "C04/"+c.name+"/decode-reject", "decoder rejects the encoding of a well-formed value: %s", rt.Hex(enc))
					return
				}
				can, err := c.canonical(obj, enc)
				if err != nil || !bytes.Equal(can, enc) {
					rt.Fail(t, "C04/"+c.name+"/decode-value", "decoding the encoding of a well-formed value gives another value (%v): in %s out %s", err, rt.Hex(enc), rt.Hex(can))
					return
				}
				if err := c.acceptedLaw(obj, enc); err != nil {
					rt.Fail(t, "C04/"+c.name+"/law", "%v", err)
					return
				}
				// decoded values are independent of one another: the application edits the first result in place
				// (every byte of every slice, every list element), then the SAME bytes are decoded again
				scribble(obj)
				obj3, ok := c.dec(append([]byte{}, enc...))
				if !ok {
					rt.Fail(t, "C04/"+c.name+"/decode-after-edit", "decoder rejects bytes it accepted before, after the first decoded value was edited in place: %s", rt.Hex(enc))
					return
				}
				if can, err := c.canonical(obj3, enc); err != nil || !bytes.Equal(can, enc) {
					rt.Fail(t, "C04/"+c.name+"/decode-after-edit", "decode(encode(v)) != v once an earlier result of decoding the same bytes was edited in place (%v): in %s out %s", err, rt.Hex(enc), rt.Hex(can))
					return
				}
				if c.marshal != nil {
					if m := c.marshal(obj3); !bytes.Equal(m, enc) {
						rt.Fail(t, "C04/"+c.name+"/decode-after-edit", "Marshal() of a freshly decoded value returns %s instead of %s once an earlier result of decoding the same bytes was edited in place", rt.Hex(m), rt.Hex(enc))
						return
					}
				}
				s.Nontrivial(enc)
				s.Sample(func() any { return rt.Hex(enc) })
			})
		})
	}
}

// scribble edits a decoded value in place the way its owner may: every byte of every byte slice reachable from it through
// EXPORTED fields is inverted and every settable string is replaced. (Slices are shared by copies of the struct, so this reaches the
// memory a decoder would have had to share to make two results depend on each other.)
func scribble(obj any) {
	v := reflect.ValueOf(obj)
	if v.Kind() != reflect.Ptr {
		p := reflect.New(v.Type())
		p.Elem().Set(v)
		v = p
	}
	var walk func(v reflect.Value, depth int)
	walk = func(v reflect.Value, depth int) {
		if depth > 8 {
			return
		}
		switch v.Kind() {
		case reflect.Ptr, reflect.Interface:
			if !v.IsNil() {
				walk(v.Elem(), depth+1)
			}
		case reflect.Struct:
			if v.Type().PkgPath() == "math/big" || v.Type().PkgPath() == "crypto/rsa" {
				return
			}
			for i := 0; i < v.NumField(); i++ {
				if v.Type().Field(i).PkgPath != "" {
					continue // unexported: not the application's to edit
				}
				walk(v.Field(i), depth+1)
			}
		case reflect.Slice:
			if v.Type().Elem().Kind() == reflect.Uint8 {
				b := v.Bytes()
				for i := range b {
					b[i] ^= 0xFF
				}
				return
			}
			for i := 0; i < v.Len(); i++ {
				walk(v.Index(i), depth+1)
			}
		case reflect.Array:
			for i := 0; i < v.Len(); i++ {
				walk(v.Index(i), depth+1)
			}
		case reflect.String:
			if v.CanSet() {
				v.SetString("edited-by-the-application")
			}
		}
	}
	walk(v, 0)
}

func TestAcceptedBytesLaw(t *testing.T) {
	for _, c := range codecs {
		c := c
		s := rt.S("accepted-law/" + c.name).SetRule("mutated encodings (truncate, extend, bit flip, splice, hostile length fields, random): whenever the decoder accepts b, canonical(decoded) is no longer than b, decodes to the same value and equals Marshal(); panics here are counted as rejections (C03 reports them); non-trivial = accepted input that is not a canonical encoding; distinct by input")
		t.Run(strings.ReplaceAll(c.name, "/", "_"), func(t *testing.T) {
			rt.Check(t, 1500, 120000, func(t *rapid.T) {
				base := c.genValue(t)
				other := c.genValue(t)
				b, class := gen.Mutate(t, base, [][]byte{other}, c.fields)
				s.Eval()
				s.Class(class)
				var obj any
				var ok bool
				if o := rt.GuardLite(func() { obj, ok = c.dec(b) }); o.Panic != nil {
					s.Class("panic(reported-by-C03)")
					return
				}
				if !ok {
					s.Class("rejected")
					return
				}
				s.Class("accepted")
				var lawErr error
				if o := rt.GuardLite(func() { lawErr = c.acceptedLaw(obj, b) }); o.Panic != nil {
					s.Class("panic(reported-by-C03)")
					return
				}
				if lawErr != nil {
					rt.Fail(t, "C04/"+c.name+"/law", "%v", lawErr)
					return
				}
				if can, _ := c.canonical(obj, b); !bytes.Equal(can, b) {
					s.Nontrivial(b)
					s.Class("accepted-noncanonical")
				}
				s.Sample(func() any { return map[string]any{"class": class, "input": rt.Hex(b)} })
			})
		})
	}
}

func TestReuse(t *testing.T) {
	for _, c := range codecs {
		if c.into == nil {
			continue
		}
		c := c
		s := rt.S("reuse/" + c.name).SetRule("one request object decodes a previous value (Marshal() called on it in half the cases), then decodes new bytes (well-formed or mutated): if accepted, Marshal() must be the canonical encoding of the new value; non-trivial = the two values differ and the second was accepted; distinct by (previous, new)")
		t.Run(strings.ReplaceAll(c.name, "/", "_"), func(t *testing.T) {
			rt.Check(t, 600, 40000, func(t *rapid.T) {
				prev := c.genValue(t)
				next := c.genValue(t)
				class := "wellformed"
				if rapid.IntRange(0, 2).Draw(t, "mutate") == 0 {
					next, class = gen.Mutate(t, next, [][]byte{prev}, c.fields)
				}
				callMarshal := rapid.Bool().Draw(t, "marshalFirst")
				// in a fifth of the cases the object's exported fields are edited by the application between the two decodes, and
				// in half of those the second message is the SAME bytes as the first (a retransmission): the decode must still
				// (re)establish the decoded value
				editBetween := gen.Uniform(t, 5, "editBetween") == 0
				if editBetween && rapid.Bool().Draw(t, "sameBytesAgain") {
					next, class = append([]byte{}, prev...), "same-bytes-after-edit"
				}
				s.Eval()
				s.Class(class)
				obj := c.newObj()
				if !c.into(obj, prev) {
					rt.Fail(t, "C04/"+c.name+"/decode-reject", "decoder rejects a well-formed value")
					return
				}
				if callMarshal {
					if m := c.marshal(obj); !bytes.Equal(m, prev) {
						rt.Fail(t, "C04/"+c.name+"/law", "Marshal() after decoding = %s, want %s", rt.Hex(m), rt.Hex(prev))
						return
					}
					s.Class("marshal-before-reuse")
				}
				if editBetween {
					scribble(obj)
					s.Class("fields-edited-between-decodes")
				}
				// the application keeps the first decoded VALUE (a copy of the struct, sharing its slices, as in
				// `list = append(list, *req)`) while the object is reused for the next message
				kept := reflect.New(reflect.ValueOf(obj).Elem().Type())
				kept.Elem().Set(reflect.ValueOf(obj).Elem())
				var ok bool
				o := rt.GuardLite(func() { ok = c.into(obj, next) })
				if can, err := c.canonical(kept.Interface(), prev); !editBetween && (err != nil || !bytes.Equal(can, prev)) {
					rt.Fail(t, "C04/"+c.name+"/reuse-changes-kept-value", "a value decoded from %s and kept (struct copy) while its object decoded %s now reads %s (%v)", rt.Hex(prev), rt.Hex(next), rt.Hex(can), err)
					return
				}
				if o.Panic != nil || !ok {
					s.Class("second-rejected")
					return
				}
				can, err := c.canonical(obj, next)
				if err != nil {
					rt.Fail(t, "C04/"+c.name+"/law", "malformed decoded value: %v", err)
					return
				}
				if m := c.marshal(obj); !bytes.Equal(m, can) {
					rt.Fail(t, "C04/"+c.name+"/reuse-stale", "object held %s, then decoded %s; Marshal() now returns %s, canonical encoding of the new value is %s (marshalFirst=%v)",
						rt.Hex(prev), rt.Hex(next), rt.Hex(m), rt.Hex(can), callMarshal)
					return
				}
				if !bytes.Equal(prev, can) {
					s.Nontrivial(prev, next)
				}
				s.Sample(func() any {
					return map[string]any{"prev": rt.Hex(prev), "next": rt.Hex(next), "marshalFirst": callMarshal}
				})
			})
		})
	}
}

// requestDecoders: the four per-type request decoders, for type separation.
var requestDecoders = map[uint16]func([]byte) bool{
	1: func(b []byte) bool { return new(type1.BasicPrivateTokenRequest).Unmarshal(b) },
	2: func(b []byte) bool { return new(type2.BasicPublicTokenRequest).Unmarshal(b) },
	3: func(b []byte) bool { return new(type3.RateLimitedTokenRequest).Unmarshal(b) },
	5: func(b []byte) bool { return new(type5.BatchedPrivateTokenRequest).Unmarshal(b) },
}

func codecByName(n string) codec {
	for _, c := range codecs {
		if c.name == n {
			return c
		}
	}
	panic(n)
}

func TestTypeSeparation(t *testing.T) {
	s := rt.S("type-separation").SetRule("each request decoder gets its own valid body under every one of the 65536 type tags (exhaustive) and the encodings of the other three types, padded to any length it might want; the batch decoder gets batches containing an element tagged with every other 16-bit value (exhaustive over tags) ; must accept only its own tag; non-trivial = foreign-tag input; distinct by construction")
	rt.Check(t, 3, 40, func(t *rapid.T) {
		encs := map[uint16][]byte{}
		for _, typ := range []uint16{1, 2, 3, 5} {
			encs[typ] = codecByName(fmt.Sprintf("TokenRequest/type%d", typ)).genValue(t)
		}
		pad := rapid.SliceOfN(rapid.Byte(), 400, 400).Draw(t, "pad")
		for typ, dec := range requestDecoders {
			own := append([]byte{}, encs[typ]...)
			for tag := 0; tag < 65536; tag++ {
				own[0], own[1] = byte(tag>>8), byte(tag)
				var ok bool
				o := rt.GuardLite(func() { ok = dec(own) })
				s.Eval()
				if uint16(tag) == typ {
					if !ok {
						rt.Fail(t, fmt.Sprintf("C04/type%d/own-tag-rejected", typ), "decoder rejects its own tag")
					}
					continue
				}
				if ok && o.Panic == nil {
					rt.Fail(t, fmt.Sprintf("C04/type%d/foreign-tag", typ), "type-%d request decoder accepts a message tagged %#04x", typ, tag)
					return
				}
			}
			s.NontrivialEnum(65535)
			for other, enc := range encs {
				if other == typ {
					continue
				}
				for _, in := range [][]byte{enc, append(append([]byte{}, enc...), pad...)} {
					var ok bool
					rt.GuardLite(func() { ok = dec(in) })
					s.Eval()
					s.NontrivialEnum(1)
					if ok {
						rt.Fail(t, fmt.Sprintf("C04/type%d/foreign-type", typ), "type-%d request decoder accepts a type-%d request", typ, other)
						return
					}
				}
			}
		}
		// generic batch decoder: one good element, then an element under every foreign tag
		good1 := encs[1]
		for tag := 0; tag < 65536; tag++ {
			if tag == 1 || tag == 2 {
				continue
			}
			var foreign []byte
			switch uint16(tag) {
			case 3, 5:
				foreign = encs[uint16(tag)]
			default:
				foreign = append([]byte{byte(tag >> 8), byte(tag)}, encs[2][2:]...)
			}
			for _, order := range [][][]byte{{good1, foreign}, {foreign, good1}, {foreign}} {
				b := ref.EncodeBatchRequest(order)
				var ok bool
				rt.GuardLite(func() { ok = new(batched.BatchedTokenRequest).Unmarshal(b) })
				s.Eval()
				if ok {
					rt.Fail(t, "C04/batch/foreign-type", "batch decoder accepts a batch holding a request tagged %#04x", tag)
					return
				}
			}
			s.NontrivialEnum(3)
		}
		s.MarkExhaustive("all 65536 type tags per request decoder and per batch element, for each drawn body")
		s.Sample(func() any { return map[string]any{"type1": rt.Hex(encs[1]), "type5": rt.Hex(encs[5])} })
	})
}

// The Rust implementation's vectors shipped in the repository are encodings pat-go did not produce.
func TestRustVectors(t *testing.T) {
	s := rt.S("rust-vectors").SetRule("token_request / token_response of every entry of batched-issuance-test-vectors-rust.json: must decode, re-encode byte-identically, and hold the per-issuance requests in order; non-trivial = every vector; distinct by bytes")
	raw, err := os.ReadFile(filepath.Join(rt.RepoDir, "tokens/batched/batched-issuance-test-vectors-rust.json"))
	if err != nil {
		t.Skipf("vectors not readable: %v", err)
	}
	var vecs []struct {
		Issuance []struct {
			Type string `json:"type"`
		} `json:"issuance"`
		TokenRequest  string `json:"token_request"`
		TokenResponse string `json:"token_response"`
	}
	if err := json.Unmarshal(raw, &vecs); err != nil {
		t.Fatalf("vectors: %v", err)
	}
	reqC, respC := codecByName("BatchTokenRequest"), codecByName("BatchTokenResponse")
	for i, v := range vecs {
		req, _ := hex.DecodeString(v.TokenRequest)
		resp, _ := hex.DecodeString(v.TokenResponse)
		s.Eval()
		s.Nontrivial(req, resp)
		obj, ok := reqC.dec(req)
		if !ok {
			rt.Fail(t, "C04/BatchTokenRequest/decode-reject", "vector %d: token_request rejected", i)
			continue
		}
		if err := reqC.acceptedLaw(obj, req); err != nil {
			rt.Fail(t, "C04/BatchTokenRequest/law", "vector %d: %v", i, err)
		}
		if can, err := reqC.canonical(obj, req); err != nil || !bytes.Equal(can, req) {
			rt.Fail(t, "C04/BatchTokenRequest/decode-value", "vector %d: token_request does not re-encode to itself (%v)", i, err)
		}
		if els, err := parseBatch(req); err != nil || len(els) != len(v.Issuance) {
			t.Fatalf("vector %d: reference parser disagrees with the vector (%v)", i, err)
		}
		robj, ok := respC.dec(resp)
		if !ok {
			rt.Fail(t, "C04/BatchTokenResponse/decode-reject", "vector %d: token_response rejected", i)
			continue
		}
		if can, err := respC.canonical(robj, resp); err != nil || !bytes.Equal(can, resp) {
			rt.Fail(t, "C04/BatchTokenResponse/decode-value", "vector %d: token_response does not re-encode to itself (%v)", i, err)
		}
		if len(robj.([][]byte)) != len(v.Issuance) {
			rt.Fail(t, "C04/BatchTokenResponse/decode-value", "vector %d: %d responses for %d requests", i, len(robj.([][]byte)), len(v.Issuance))
		}
		s.Sample(func() any { return map[string]any{"token_request": rt.Hex(req), "token_response": rt.Hex(resp)} })
	}
}
