package c04

import (
	"testing"

	"pgregory.net/rapid"
)

// Native coverage-guided targets for the accepted-bytes law (thorough tier): whenever the decoder accepts
// the fuzzer's bytes, the canonical encoding must be no longer, decode to the same value and equal Marshal().
func fuzzLaw(f *testing.F, name string) {
	c := codecByName(name)
	// seed corpus: a few well-formed encodings drawn with a fixed rapid seed, plus degenerate inputs
	for i := 0; i < 6; i++ {
		f.Add(rapid.Custom(func(t *rapid.T) []byte { return c.genValue(t) }).Example(i))
	}
	f.Add([]byte{})
	f.Add([]byte{0xc0, 0, 0, 0})
	f.Fuzz(func(t *testing.T, b []byte) {
		if len(b) > 1<<17 {
			return
		}
		var obj any
		var ok bool
		func() {
			defer func() { _ = recover() }() // panics are C03's business
			obj, ok = c.dec(b)
		}()
		if !ok {
			return
		}
		if err := c.acceptedLaw(obj, b); err != nil {
			t.Fatalf("SIG=C04/%s/law %v", c.name, err)
		}
	})
}

func FuzzLawTokenChallenge(f *testing.F) { fuzzLaw(f, "TokenChallenge") }
func FuzzLawToken1(f *testing.F)         { fuzzLaw(f, "Token/type1") }
func FuzzLawToken5(f *testing.F)         { fuzzLaw(f, "Token/type5") }
func FuzzLawRequest1(f *testing.F)       { fuzzLaw(f, "TokenRequest/type1") }
func FuzzLawRequest2(f *testing.F)       { fuzzLaw(f, "TokenRequest/type2") }
func FuzzLawRequest3(f *testing.F)       { fuzzLaw(f, "TokenRequest/type3") }
func FuzzLawRequest5(f *testing.F)       { fuzzLaw(f, "TokenRequest/type5") }
func FuzzLawInner(f *testing.F)          { fuzzLaw(f, "InnerTokenRequest") }
func FuzzLawEncapKey(f *testing.F)       { fuzzLaw(f, "EncapKey") }
func FuzzLawBatchRequest(f *testing.F)   { fuzzLaw(f, "BatchTokenRequest") }
func FuzzLawBatchResponse(f *testing.F)  { fuzzLaw(f, "BatchTokenResponse") }
