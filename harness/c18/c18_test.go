// C18 — token keys encode canonically and key identifiers are derived from them.
package c18

import (
	"bytes"
	"crypto/elliptic"
	"crypto/rsa"
	"crypto/sha256"
	"encoding/hex"
	"encoding/json"
	"fmt"
	"math/big"
	"os"
	"path/filepath"
	"testing"

	hpke "github.com/cisco/go-hpke"
	"github.com/cloudflare/circl/group"
	"github.com/cloudflare/circl/oprf"
	"github.com/cloudflare/pat-go/tokens/type1"
	"github.com/cloudflare/pat-go/tokens/type2"
	"github.com/cloudflare/pat-go/tokens/type3"
	"github.com/cloudflare/pat-go/tokens/type5"
	"github.com/cloudflare/pat-go/util"
	"pgregory.net/rapid"

	"verifharness/internal/gen"
	"verifharness/internal/ref"
	"verifharness/internal/rt"
)

func TestMain(m *testing.M) { rt.Main(m) }

// The template is checked against an encoding pat-go did not produce: the Rust implementation's pkS.
func TestTemplateAgainstRustVector(t *testing.T) {
	s := rt.S("template-vs-rust").SetRule("the harness's DER template must reproduce, byte for byte, the RSASSA-PSS SPKI (pkS) written by the Rust implementation in the shipped vector, from the modulus/exponent it contains; non-trivial = every type-2 pkS; distinct by bytes")
	raw, err := os.ReadFile(filepath.Join(rt.RepoDir, "tokens/batched/batched-issuance-test-vectors-rust.json"))
	if err != nil {
		t.Fatalf("vectors: %v", err)
	}
	var vecs []struct {
		Issuance []struct {
			Type string `json:"type"`
			PkS  string `json:"pkS"`
		} `json:"issuance"`
	}
	if err := json.Unmarshal(raw, &vecs); err != nil {
		t.Fatal(err)
	}
	n := 0
	for _, v := range vecs {
		for _, is := range v.Issuance {
			if is.Type != "0002" {
				continue
			}
			pk, _ := hex.DecodeString(is.PkS)
			// the RSAPublicKey is the tail of the SPKI: find modulus and exponent with a minimal DER walk
			mod, exp, err := tailRSAPublicKey(pk)
			if err != nil {
				t.Fatalf("vector pkS: %v", err)
			}
			s.Eval()
			s.Nontrivial(pk)
			if got := ref.TokenKeyPSS(mod, exp); !bytes.Equal(got, pk) {
				t.Fatalf("harness template does not reproduce the Rust SPKI:\n got %x\nwant %x", got, pk)
			}
			// and pat-go must produce the same bytes for that key
			if got, err := util.MarshalTokenKeyPSSOID(&rsa.PublicKey{N: mod, E: int(exp.Int64())}); err != nil || !bytes.Equal(got, pk) {
				rt.Report(t, "C18/pss-der", "", nil, "MarshalTokenKeyPSSOID differs from the Rust implementation's SPKI for the same key (%v)", err)
			}
			n++
			s.Sample(func() any { return rt.Hex(pk) })
		}
	}
	if n == 0 {
		t.Fatal("no type-2 key in the vectors")
	}
}

// tailRSAPublicKey extracts N and E from the last two INTEGERs of an SPKI (they are its final bytes).
func tailRSAPublicKey(der []byte) (*big.Int, *big.Int, error) {
	// scan for the BIT STRING holding SEQUENCE{INTEGER,INTEGER}: walk from every 0x03 tag and try
	for i := 0; i < len(der); i++ {
		if der[i] != 0x03 {
			continue
		}
		c, ok := readTLV(der[i:], 0x03)
		if !ok || len(c) < 1 || c[0] != 0 || i+tlvSize(der[i:]) != len(der) {
			continue
		}
		seq, ok := readTLV(c[1:], 0x30)
		if !ok {
			continue
		}
		nb, ok := readTLV(seq, 0x02)
		if !ok {
			continue
		}
		eb, ok := readTLV(seq[tlvSize(seq):], 0x02)
		if !ok {
			continue
		}
		return new(big.Int).SetBytes(nb), new(big.Int).SetBytes(eb), nil
	}
	return nil, nil, fmt.Errorf("no RSAPublicKey found")
}

func tlvSize(b []byte) int {
	if len(b) < 2 {
		return 1 << 30
	}
	if b[1] < 0x80 {
		return 2 + int(b[1])
	}
	k := int(b[1] & 0x7f)
	if len(b) < 2+k {
		return 1 << 30
	}
	n := 0
	for _, x := range b[2 : 2+k] {
		n = n<<8 | int(x)
	}
	return 2 + k + n
}

func readTLV(b []byte, tag byte) ([]byte, bool) {
	if len(b) < 2 || b[0] != tag {
		return nil, false
	}
	sz := tlvSize(b)
	if sz > len(b) {
		return nil, false
	}
	hdr := 2
	if b[1] >= 0x80 {
		hdr += int(b[1] & 0x7f)
	}
	return b[hdr:sz], true
}

func drawModulus(t *rapid.T) *big.Int {
	var bits int
	switch gen.Uniform(t, 6, "modkind") {
	case 0:
		bits = gen.Pick(t, []int{1, 7, 8, 9, 15, 16, 1008, 1015, 1016, 1017, 1023, 1024, 2040, 2047, 2048, 2049, 3072, 4096, 4200, 6144, 7400, 7680, 8192, 16384}, "bits")
	case 4:
		bits = 2048 // the size every deployed key has: fast paths live here
	case 5:
		bits = gen.UniformRange(t, 4200, 17000, "bits") // encodings beyond 512 / 1024 / 2048 bytes
	case 1:
		bits = gen.UniformRange(t, 1, 300, "bits") // DER short/long length forms around 127/128 content bytes
	case 2:
		bits = gen.UniformRange(t, 900, 1100, "bits")
	default:
		bits = gen.UniformRange(t, 1, 4200, "bits")
	}
	raw := rapid.SliceOfN(rapid.Byte(), (bits+7)/8, (bits+7)/8).Draw(t, "mod")
	n := new(big.Int).SetBytes(raw)
	// force the exact bit length: top bit set, higher bits clear
	n.SetBit(n, bits-1, 1)
	for i := bits; i < len(raw)*8; i++ {
		n.SetBit(n, i, 0)
	}
	if rapid.Bool().Draw(t, "allones") {
		n.Sub(new(big.Int).Lsh(big.NewInt(1), uint(bits)), big.NewInt(1))
	}
	return n
}

func TestRSATokenKeyEncoding(t *testing.T) {
	s := rt.S("rsa-token-key").SetRule("RSA public keys drawn as numbers (modulus 1..17000 bits incl. DER length-form and leading-00 boundaries, a fifth of them exactly 2048 bits, exponent in {3,17,65537,2^31-1} or drawn) and the 2048-bit pool keys: UnmarshalTokenKey inverts both SPKI forms, the PSS form equals the harness's DER template, MarshalTokenKey(legacy flag) selects the form; non-trivial = every key; distinct by (N, E)")
	pool := gen.RSAPool()
	// decoded keys are HELD across later decodes (a directory of issuer keys): each must keep the value it was decoded with
	type held struct {
		key *rsa.PublicKey
		n   *big.Int
		e   int
	}
	var ring []held
	rt.Check(t, 2000, 1000000, func(t *rapid.T) {
		for _, h := range ring {
			if h.key.N.Cmp(h.n) != 0 || h.key.E != h.e {
				rt.Fail(t, "C18/decoded-key-changed", "a key returned by UnmarshalTokenKey earlier (N %x E %d) now reads N %x E %d: later decodes changed it", h.n, h.e, h.key.N, h.key.E)
				ring = nil
				return
			}
		}
		var n *big.Int
		var e int
		if gen.Uniform(t, 10, "usepool") == 0 {
			k := pool[gen.Uniform(t, len(pool), "pool")]
			n, e = k.N, k.E
			s.Class("pool-key")
		} else {
			n = drawModulus(t)
			switch gen.Uniform(t, 3, "ekind") {
			case 0:
				e = gen.Pick(t, []int{3, 17, 65537, 1<<31 - 1, 1, 127, 128, 255, 256, 32767, 32768}, "e")
			case 1:
				e = rapid.IntRange(1, 1<<31-1).Draw(t, "e")
			default:
				e = int(rapid.Int64Range(1, 1<<62).Draw(t, "e64"))
			}
			s.Class(fmt.Sprintf("modulus-bytes%%128=%v", map[bool]string{true: "long-form", false: "short-form"}[len(n.Bytes()) >= 120]))
		}
		key := &rsa.PublicKey{N: n, E: e}
		s.Eval()
		s.Nontrivial(n.Bytes(), big.NewInt(int64(e)).Bytes())
		pss, err := util.MarshalTokenKeyPSSOID(key)
		if err != nil {
			rt.Fail(t, "C18/pss-marshal", "MarshalTokenKeyPSSOID: %v", err)
			return
		}
		if want := ref.TokenKeyPSS(n, big.NewInt(int64(e))); !bytes.Equal(pss, want) {
			rt.Fail(t, "C18/pss-der", "RSASSA-PSS SPKI differs from the prescribed DER:\n got %x\nwant %x", pss, want)
			return
		}
		legacy, err := util.MarshalTokenKeyRSAEncryptionOID(key)
		if err != nil {
			rt.Fail(t, "C18/legacy-marshal", "MarshalTokenKeyRSAEncryptionOID: %v", err)
			return
		}
		if want := ref.TokenKeyRSAEncryption(n, big.NewInt(int64(e))); !bytes.Equal(legacy, want) {
			rt.Fail(t, "C18/legacy-der", "rsaEncryption SPKI differs from the reference DER:\n got %x\nwant %x", legacy, want)
			return
		}
		for form, enc := range map[string][]byte{"pss": pss, "legacy": legacy} {
			back, err := util.UnmarshalTokenKey(enc)
			if err != nil {
				rt.Fail(t, "C18/"+form+"-unmarshal", "UnmarshalTokenKey rejects its own %s encoding: %v (%x)", form, err, enc)
				return
			}
			if back.N.Cmp(n) != 0 || back.E != e {
				rt.Fail(t, "C18/"+form+"-roundtrip", "decode(encode(key)) != key: N %x E %d, got N %x E %d", n, e, back.N, back.E)
				return
			}
			ring = append(ring, held{back, new(big.Int).Set(n), e})
			if len(ring) > 16 {
				ring = ring[len(ring)-16:]
			}
			// a decode that FAILS half-way (valid modulus, then garbage) in between
			if bad := append([]byte{}, enc...); len(bad) > 8 {
				bad[len(bad)-3] ^= 0xff
				rt.GuardLite(func() { _, _ = util.UnmarshalTokenKey(bad) })
			}
		}
		// within the case (reproducible from the case alone): decode this key, then ANOTHER key, then look at the first again
		{
			first, err1 := util.UnmarshalTokenKey(pss)
			n2 := new(big.Int).Add(n, big.NewInt(2))
			other, _ := util.MarshalTokenKeyPSSOID(&rsa.PublicKey{N: n2, E: e})
			second, err2 := util.UnmarshalTokenKey(other)
			if err1 != nil || err2 != nil || first.N.Cmp(n) != 0 || first.E != e || second.N.Cmp(n2) != 0 {
				rt.Fail(t, "C18/decoded-key-changed", "key decoded (N %x), then another key decoded (N %x): the first now reads N %x, the second N %x (%v %v)", n, n2, first.N, second.N, err1, err2)
				return
			}
		}
		// the convenience wrapper, and right after it the key's "concatenation twin": moving digits between the end of the
		// modulus and the front of the exponent gives another key with the same hex(N)||hex(E) (what an encoding cache keyed
		// by an unframed rendering of the key would confuse)
		if n.BitLen() >= 64 {
			var w1 []byte
			if o := rt.GuardLite(func() { w1 = util.MustMarshalPublicKey(key) }); o.Panic != nil || !bytes.Equal(w1, pss) {
				rt.Fail(t, "C18/must-marshal", "MustMarshalPublicKey differs from MarshalTokenKeyPSSOID (%v)", o.Panic)
				return
			}
			hexE := fmt.Sprintf("%x", e)
			if len(hexE) >= 2 {
				cut := gen.UniformRange(t, 1, len(hexE)-1, "twinCut")
				n2, ok1 := new(big.Int).SetString(fmt.Sprintf("%x", n)+hexE[:cut], 16)
				e2, ok2 := new(big.Int).SetString(hexE[cut:], 16)
				if ok1 && ok2 && e2.Sign() > 0 && e2.IsInt64() && e2.Int64() < 1<<31 {
					twin := &rsa.PublicKey{N: n2, E: int(e2.Int64())}
					var w2 []byte
					want2 := ref.TokenKeyPSS(twin.N, big.NewInt(int64(twin.E)))
					if o := rt.GuardLite(func() { w2 = util.MustMarshalPublicKey(twin) }); o.Panic != nil || !bytes.Equal(w2, want2) {
						rt.Fail(t, "C18/must-marshal-twin", "MustMarshalPublicKey of (N', E') = (N*16^%d + top digits of E, remaining digits of E) right after (N, E) does not return the encoding of (N', E') (%v)", cut, o.Panic)
						return
					}
					if back := util.MustUnmarshalPublicKey(w2); back.N.Cmp(twin.N) != 0 || back.E != twin.E {
						rt.Fail(t, "C18/must-marshal-twin", "MustUnmarshalPublicKey does not invert MustMarshalPublicKey for the twin key")
						return
					}
					s.Class("concatenation-twin")
				}
			}
		}
		for _, lf := range []bool{true, false} {
			got, err := util.MarshalTokenKey(key, lf)
			want := pss
			if lf {
				want = legacy
			}
			if err != nil || !bytes.Equal(got, want) {
				rt.Fail(t, "C18/marshal-flag", "MarshalTokenKey(legacy=%v) does not return the corresponding form", lf)
				return
			}
		}
		s.Sample(func() any { return map[string]any{"modulus_bits": n.BitLen(), "e": e, "pss": rt.Hex(pss)} })
	})
}

func TestKeyIDs(t *testing.T) {
	s := rt.S("key-ids").SetRule("issuers of all four types over drawn keys: TokenKeyID() == SHA-256(serialized public key) with the serialization recomputed without pat-go (P-384: crypto/elliptic ScalarBaseMult + compressed; ristretto255: circl group MulGen; RSA: the DER template); requests of types 1,2,5 carry the last id byte; type-3 requests carry SHA-256(name key) and the name key is id||0020||pk||0001||0001; non-trivial = every issuer; distinct by key id and request")
	rt.Check(t, 150, 40000, func(t *rapid.T) {
		defer rt.Entropy(gen.Seed().Draw(t, "entropy"))()
		typ := gen.Pick(t, []uint16{1, 2, 3, 5}, "type")
		s.Eval()
		s.Class(gen.TypeName(typ))
		var id, wantID, reqID []byte
		var again func() []byte
		switch typ {
		case 1:
			keySeed := gen.Seed().Draw(t, "keyseed")
			key := gen.OPRFKey(oprf.SuiteP384, keySeed)
			kb, _ := key.MarshalBinary()
			x, y := elliptic.P384().ScalarBaseMult(kb)
			if gen.Uniform(t, 4, "shortX") == 0 {
				// a key whose public X coordinate has a zero top byte (1 key in 256; found by searching derived keys): the compressed
				// encoding is still 49 bytes
				for c := 0; c < 6000 && len(x.Bytes()) == 48; c++ {
					key = gen.OPRFKey(oprf.SuiteP384, append(append([]byte{}, keySeed...), byte(c), byte(c>>8), 0x5e))
					kb, _ = key.MarshalBinary()
					x, y = elliptic.P384().ScalarBaseMult(kb)
				}
				if len(x.Bytes()) < 48 {
					s.Class("type1-public-X-with-leading-zero-byte")
				}
			}
			ser := elliptic.MarshalCompressed(elliptic.P384(), x, y)
			h := sha256.Sum256(ser)
			wantID = h[:]
			iss := type1.NewBasicPrivateIssuer(key)
			id = iss.TokenKeyID()
			again = iss.TokenKeyID
			if pk, _ := iss.TokenKey().MarshalBinary(); !bytes.Equal(pk, ser) {
				rt.Fail(t, "C18/type1/public-key", "TokenKey() serialises to %x, crypto/elliptic gives %x", pk, ser)
				return
			}
			sess, err := gen.NewSession(t, 1, gen.SessionOpts{OKey: key})
			if err != nil {
				t.Fatalf("harness: %v", err)
			}
			reqID = []byte{sess.State1.Request().TokenKeyID, sess.RequestBytes[2]}
		case 5:
			key := gen.OPRFKey(oprf.SuiteRistretto255, gen.Seed().Draw(t, "keyseed"))
			kb, _ := key.MarshalBinary()
			sc := group.Ristretto255.NewScalar()
			if err := sc.UnmarshalBinary(kb); err != nil {
				t.Fatalf("harness: %v", err)
			}
			ser, _ := group.Ristretto255.NewElement().MulGen(sc).MarshalBinaryCompress()
			h := sha256.Sum256(ser)
			wantID = h[:]
			iss5 := type5.NewBatchedPrivateIssuer(key)
			id = iss5.TokenKeyID()
			again = iss5.TokenKeyID
			sess, err := gen.NewSession(t, 5, gen.SessionOpts{OKey: key, MaxBatch: 3})
			if err != nil {
				t.Fatalf("harness: %v", err)
			}
			reqID = []byte{sess.State5.Request().TokenKeyID, sess.RequestBytes[2]}
		case 2:
			idx := gen.RSAKey().Draw(t, "rsakey")
			k := gen.RSAPool()[idx]
			if gen.Uniform(t, 3, "smallExponent") == 0 {
				k = gen.Pick(t, gen.RSASmallExponentKeys(), "smallE") // 2048 bits, e = 3 / 17 / 257
			}
			h := sha256.Sum256(ref.TokenKeyPSS(k.N, big.NewInt(int64(k.E))))
			wantID = h[:]
			iss2 := type2.NewBasicPublicIssuer(k)
			id = iss2.TokenKeyID()
			again = iss2.TokenKeyID
			sess, err := gen.NewSession(t, 2, gen.SessionOpts{RKeyIdx: idx, RKey: k})
			if err != nil {
				t.Fatalf("harness: %v", err)
			}
			reqID = []byte{sess.State2.Request().TokenKeyID, sess.RequestBytes[2]}
		case 3:
			idx := gen.RSAKey().Draw(t, "rsakey")
			k := gen.RSAPool()[idx]
			if gen.Uniform(t, 3, "smallExponent") == 0 {
				k = gen.Pick(t, gen.RSASmallExponentKeys(), "smallE")
			}
			h := sha256.Sum256(ref.TokenKeyPSS(k.N, big.NewInt(int64(k.E))))
			wantID = h[:]
			sess, err := gen.NewSession(t, 3, gen.SessionOpts{RKeyIdx: idx, RKey: k})
			if err != nil {
				t.Fatalf("harness: %v", err)
			}
			id = sess.Issuer3.TokenKeyID()
			again = sess.Issuer3.TokenKeyID
			nk := sess.Issuer3.NameKey().Marshal()
			if len(nk) != 39 || nk[0] != 0x00 || !bytes.Equal(nk[1:3], []byte{0x00, 0x20}) || !bytes.Equal(nk[35:], []byte{0x00, 0x01, 0x00, 0x01}) {
				rt.Fail(t, "C18/type3/name-key-layout", "issuer name key is not id||0020||pk(32)||0001||0001: %x", nk)
				return
			}
			nh := sha256.Sum256(nk)
			r := sess.State3.Request()
			if !bytes.Equal(r.NameKeyID, nh[:]) || !bytes.Equal(sess.RequestBytes[51:83], nh[:]) {
				rt.Fail(t, "C18/type3/name-key-id", "request carries name key id %x, SHA-256(name key) is %x", r.NameKeyID, nh)
				return
			}
			// name keys from seeds: public key recomputed with go-hpke directly
			seed := gen.Seed().Draw(t, "nkseed")
			pk, err := type3.CreatePrivateEncapKeyFromSeed(seed)
			if err != nil {
				rt.Fail(t, "C18/type3/name-key-from-seed", "CreatePrivateEncapKeyFromSeed: %v", err)
				return
			}
			suite, _ := hpke.AssembleCipherSuite(hpke.DHKEM_X25519, hpke.KDF_HKDF_SHA256, hpke.AEAD_AESGCM128)
			_, hpk, _ := suite.KEM.DeriveKeyPair(seed)
			want := ref.EncodeEncapKey(0x01, 0x0020, suite.KEM.SerializePublicKey(hpk), 0x0001, 0x0001)
			if got := pk.Public().Marshal(); !bytes.Equal(got, want) {
				rt.Fail(t, "C18/type3/name-key-layout", "name key from seed = %x, want %x", got, want)
				return
			}
		}
		if typ == 3 {
			// several name keys that share the HPKE public key but differ in key_id: requests for each, in a drawn
			// order and with repeats, must each carry SHA-256 of THAT name key's serialization
			seed := gen.Seed().Draw(t, "nkseed2")
			k1, err := type3.CreatePrivateEncapKeyFromSeed(seed)
			if err != nil {
				t.Fatalf("harness: %v", err)
			}
			base := k1.Public().Marshal()
			variants := []type3.EncapKey{k1.Public()}
			for i := 0; i < 2; i++ {
				enc := append([]byte{}, base...)
				enc[0] = byte(gen.UniformRange(t, 0, 255, "keyid"))
				if rapid.Bool().Draw(t, "otherSuite") {
					// another KDF / AEAD of the HPKE registry (ids 1..3), so that kdf_id != aead_id
					enc[36] = byte(gen.UniformRange(t, 1, 3, "kdf"))
					enc[38] = byte(gen.UniformRange(t, 1, 3, "aead"))
				}
				kv, err := type3.UnmarshalEncapKey(enc)
				if err != nil || !bytes.Equal(kv.Marshal(), enc) {
					rt.Fail(t, "C18/type3/name-key-layout", "name key with key_id %#x does not round-trip (%v)", enc[0], err)
					return
				}
				variants = append(variants, kv)
			}
			k := gen.RSAPool()[0]
			kid := type2.NewBasicPublicIssuer(k).TokenKeyID()
			for i := 0; i < 5; i++ {
				nk := gen.Pick(t, variants, "namekey")
				st, err := type3.NewRateLimitedClientFromSecret([]byte{1, 2, 3}).CreateTokenRequest([]byte("c"), make([]byte, 32), []byte{9}, kid, &k.PublicKey, "o.example", nk)
				if err != nil {
					rt.Fail(t, "C18/type3/name-key-id", "CreateTokenRequest with a name key of key_id %#x failed: %v", nk.Marshal()[0], err)
					return
				}
				want := sha256.Sum256(nk.Marshal())
				if !bytes.Equal(st.Request().NameKeyID, want[:]) {
					rt.Fail(t, "C18/type3/name-key-id", "request %d carries name key id %x, SHA-256 of the name key (key_id %#x) it was created for is %x", i, st.Request().NameKeyID, nk.Marshal()[0], want)
					return
				}
			}
		}
		if again != nil {
			// the caller owns what TokenKeyID returned: overwriting it must not change what the issuer reports next
			for i := range id {
				id[i] ^= 0xFF
			}
			if id2 := again(); !bytes.Equal(id2, wantID) {
				rt.Fail(t, fmt.Sprintf("C18/type%d/key-id-aliased", typ), "after the caller overwrote the slice returned by TokenKeyID(), the next TokenKeyID() returns %x, want %x", id2, wantID)
				return
			}
			for i := range id {
				id[i] ^= 0xFF
			}
		}
		if !bytes.Equal(id, wantID) {
			rt.Fail(t, fmt.Sprintf("C18/type%d/key-id", typ), "TokenKeyID() = %x, SHA-256(serialized public key) = %x", id, wantID)
			return
		}
		if typ != 3 && (reqID[0] != wantID[31] || reqID[1] != wantID[31]) {
			rt.Fail(t, fmt.Sprintf("C18/type%d/truncated-id", typ), "request carries key id byte %#x (wire %#x), last byte of the key id is %#x", reqID[0], reqID[1], wantID[31])
			return
		}
		s.Nontrivial(id, reqID)
		s.Sample(func() any { return map[string]any{"type": typ, "key_id": rt.Hex(id)} })
	})
}
