// C17 — issuers, verifiers and keys can be shared between goroutines.
// The test binary is built with -race; the race detector is half of the oracle.
package c17

import (
	"bytes"
	"crypto"
	stdecdsa "crypto/ecdsa"
	stded "crypto/ed25519"
	"crypto/elliptic"
	"crypto/rand"
	"crypto/rsa"
	"crypto/sha256"
	"encoding/json"
	"fmt"
	"math/big"
	"os"
	"os/exec"
	"path/filepath"
	"runtime"
	"strings"
	"sync"
	"testing"

	"github.com/cloudflare/circl/oprf"
	patecdsa "github.com/cloudflare/pat-go/ecdsa"
	pated "github.com/cloudflare/pat-go/ed25519"
	"github.com/cloudflare/pat-go/tokens"
	"github.com/cloudflare/pat-go/tokens/batched"
	"github.com/cloudflare/pat-go/tokens/type1"
	"github.com/cloudflare/pat-go/tokens/type2"
	"github.com/cloudflare/pat-go/tokens/type3"
	"github.com/cloudflare/pat-go/tokens/type5"
	"github.com/cloudflare/pat-go/util"
	"pgregory.net/rapid"

	"verifharness/internal/gen"
	"verifharness/internal/ref"
	"verifharness/internal/rt"
)

func TestMain(m *testing.M) { rt.Main(m) }

// Plan is a complete, replayable description of one concurrent case: every
// argument is re-derived from Seed, so the plan file is the reproduction.
type Plan struct {
	Kind       string     `json:"kind"`
	Seed       string     `json:"seed"`
	GoMaxProcs int        `json:"gomaxprocs"`
	Ops        [][]string `json:"ops"`  // per goroutine
	Skew       []int      `json:"skew"` // Gosched calls before the first operation, per goroutine
}

var kinds = map[string][]string{
	"type1-issuer":     {"Evaluate", "Evaluate", "EvaluateMalformed", "Verify", "VerifyVariant", "TokenKeyID", "TokenKey"},
	"type5-issuer":     {"Evaluate", "Evaluate", "EvaluateMalformed", "Verify", "VerifyVariant", "TokenKeyID", "TokenKey"},
	"two-verifiers":    {"VerifyAtOwn", "VerifyAtOther", "VerifyAtOwn", "VerifyAtOther", "VerifyOtherTokenAtOther"},
	"type2-issuer":     {"Evaluate", "TokenKeyID", "TokenKey"},
	"type3-issuer":     {"Evaluate", "EvaluateUnknownOrigin", "TokenKeyID", "NameKey", "OriginIndexKey"},
	"batch-issuer":     {"EvaluateBatch"},
	"ecdsa-keys":       {"Sign", "SignASN1", "Verify", "VerifyASN1", "BlindPublicKey", "UnblindPublicKey", "BlindKeySign", "Public"},
	"ed25519-keys":     {"Sign", "Verify", "BlindPublicKey", "UnblindPublicKey", "BlindKeySign", "Public"},
	"ecdsa-generate":   {"GenerateKey", "Sign"},
	"clients":          {"Issue1", "Issue2", "Issue3", "Issue5"},
	"rsa-key-ids":      {"KeyID2", "KeyID3", "MarshalTokenKey", "KeyID2", "KeyID3"},
	"ed25519-firstuse": {"Sign", "Verify", "NewKeyFromSeed", "BlindKeySign"},
	"ecdsa-firstuse":   {"Sign", "Verify", "GenerateKey"},
}

func kindNames() []string {
	return []string{"type1-issuer", "type5-issuer", "type2-issuer", "type3-issuer", "batch-issuer", "ecdsa-keys", "ed25519-keys", "ecdsa-generate", "clients", "rsa-key-ids", "two-verifiers"}
}

// a check to run after the goroutines have joined
type post func() error

// freshRSA returns a copy of a pool key without any precomputed values, as a caller who just parsed a key would hold it.
func freshRSA(k *rsa.PrivateKey) *rsa.PrivateKey {
	n := &rsa.PrivateKey{PublicKey: rsa.PublicKey{N: k.N, E: k.E}, D: k.D}
	for _, p := range k.Primes {
		n.Primes = append(n.Primes, p)
	}
	return n
}

// execute builds the shared object and all per-call arguments from the seed,
// then runs the goroutines and validates every result.
func execute(p Plan) error {
	seed := []byte(p.Seed)
	nG := len(p.Ops)
	runs := make([][]func() post, nG) // runs[g][i]() performs the call and returns its validation
	var prepErr error
	func() {
		defer rt.Entropy(append([]byte("c17 prepare "), seed...))()
		chal := []byte("challenge " + p.Seed)
		nonce := bytes.Repeat([]byte{0x5c}, 32)
		switch p.Kind {
		case "type1-issuer", "type5-issuer":
			typ := uint16(1)
			suite := oprf.SuiteP384
			if p.Kind == "type5-issuer" {
				typ, suite = 5, oprf.SuiteRistretto255
			}
			// reference key (with its public key computed) for sequential expectations; FRESH copy for the shared object
			refKey := gen.OPRFKey(suite, seed)
			wantID := gen.OPRFKeyID(refKey)
			wantPK, _ := refKey.Public().MarshalBinary()
			shared := gen.FreshOPRFKey(suite, refKey)
			var ev1 func(*type1.BasicPrivateTokenRequest) ([]byte, error)
			var ev5 func(*type5.BatchedPrivateTokenRequest) ([]byte, error)
			var verify func(tokens.Token) error
			var keyID func() []byte
			var tokenKey func() *oprf.PublicKey
			if typ == 1 {
				i := type1.NewBasicPrivateIssuer(shared)
				ev1, verify, keyID, tokenKey = i.Evaluate, i.Verify, i.TokenKeyID, i.TokenKey
			} else {
				i := type5.NewBatchedPrivateIssuer(shared)
				ev5, verify, keyID, tokenKey = i.Evaluate, i.Verify, i.TokenKeyID, i.TokenKey
			}
			for g := range p.Ops {
				for _, opn := range p.Ops[g] {
					switch opn {
					case "Evaluate":
						if typ == 1 {
							st, err := type1.NewBasicPrivateClient().CreateTokenRequest(chal, nonce, wantID, refKey.Public())
							if err != nil {
								prepErr = err
								return
							}
							runs[g] = append(runs[g], func() post {
								resp, err := ev1(st.Request())
								return func() error {
									if err != nil {
										return fmt.Errorf("Evaluate: %v", err)
									}
									tok, err := st.FinalizeToken(resp)
									if err != nil {
										return fmt.Errorf("concurrent Evaluate produced a response that does not finalize: %v", err)
									}
									if !bytes.Equal(tok.Authenticator, gen.VOPRFOutput(suite, refKey, tok.AuthenticatorInput())) {
										return fmt.Errorf("concurrent Evaluate produced a token that does not verify")
									}
									return nil
								}
							})
						} else {
							st, err := type5.NewBatchedPrivateClient().CreateTokenRequest(chal, [][]byte{nonce, nonce}, wantID, refKey.Public())
							if err != nil {
								prepErr = err
								return
							}
							runs[g] = append(runs[g], func() post {
								resp, err := ev5(st.Request())
								return func() error {
									if err != nil {
										return fmt.Errorf("Evaluate: %v", err)
									}
									toks, err := st.FinalizeTokens(resp)
									if err != nil {
										return fmt.Errorf("concurrent Evaluate produced a response that does not finalize: %v", err)
									}
									for _, tok := range toks {
										if !bytes.Equal(tok.Authenticator, gen.VOPRFOutput(suite, refKey, tok.AuthenticatorInput())) {
											return fmt.Errorf("concurrent Evaluate produced a token that does not verify")
										}
									}
									return nil
								}
							})
						}
					case "EvaluateMalformed":
						// a request with an undecodable element: the error path, running next to honest evaluations
						runs[g] = append(runs[g], func() post {
							var err error
							if typ == 1 {
								_, err = ev1(&type1.BasicPrivateTokenRequest{TokenKeyID: wantID[31], BlindedReq: bytes.Repeat([]byte{0xff}, 49)})
							} else {
								_, err = ev5(&type5.BatchedPrivateTokenRequest{TokenKeyID: wantID[31], BlindedReq: [][]byte{bytes.Repeat([]byte{0xff}, 32), bytes.Repeat([]byte{0xff}, 32)}})
							}
							return func() error {
								if err == nil {
									return fmt.Errorf("concurrent Evaluate accepted an undecodable element")
								}
								return nil
							}
						})
					case "Verify":
						input := gen.AuthInput(typ, nonce, chal, wantID)
						good := tokens.Token{TokenType: typ, Nonce: nonce, Context: input[34:66], KeyID: wantID, Authenticator: gen.VOPRFOutput(suite, refKey, input)}
						bad := good
						bad.Authenticator = append([]byte{}, good.Authenticator...)
						bad.Authenticator[0] ^= 1
						runs[g] = append(runs[g], func() post {
							e1, e2 := verify(good), verify(bad)
							return func() error {
								if e1 != nil || e2 == nil {
									return fmt.Errorf("concurrent Verify: valid token -> %v, invalid token -> %v", e1, e2)
								}
								return nil
							}
						})
					case "VerifyVariant":
						// the honest token with ONE other field changed (same nonce, same authenticator): never valid, whatever
						// other goroutines are verifying at the same moment
						input := gen.AuthInput(typ, nonce, chal, wantID)
						variant := tokens.Token{TokenType: typ, Nonce: nonce, Context: append([]byte{}, input[34:66]...), KeyID: append([]byte{}, wantID...), Authenticator: gen.VOPRFOutput(suite, refKey, input)}
						switch (g + len(runs[g])) % 3 {
						case 0:
							variant.Context[5] ^= 0x10
						case 1:
							variant.KeyID[7] ^= 0x01
						case 2:
							variant.TokenType = 6 - typ
						}
						runs[g] = append(runs[g], func() post {
							err := verify(variant)
							return func() error {
								if err == nil {
									return fmt.Errorf("concurrent Verify accepted a token that differs from the honest one in context, key id or type (same nonce, same authenticator)")
								}
								return nil
							}
						})
					case "TokenKeyID":
						runs[g] = append(runs[g], func() post {
							id := keyID()
							return func() error {
								if !bytes.Equal(id, wantID) {
									return fmt.Errorf("concurrent TokenKeyID = %x, sequential value %x", id, wantID)
								}
								return nil
							}
						})
					case "TokenKey":
						runs[g] = append(runs[g], func() post {
							pk := tokenKey()
							return func() error {
								b, err := pk.MarshalBinary()
								if err != nil || !bytes.Equal(b, wantPK) {
									return fmt.Errorf("concurrent TokenKey differs from the sequential value (%v)", err)
								}
								return nil
							}
						})
					}
				}
			}
		case "type2-issuer":
			pool := gen.RSAPool()[int(seed[0])%8]
			iss := type2.NewBasicPublicIssuer(freshRSA(pool))
			wantID := type2.NewBasicPublicIssuer(pool).TokenKeyID()
			for g := range p.Ops {
				for _, opn := range p.Ops[g] {
					switch opn {
					case "Evaluate":
						st, err := type2.NewBasicPublicClient().CreateTokenRequest(chal, nonce, wantID, &pool.PublicKey)
						if err != nil {
							prepErr = err
							return
						}
						runs[g] = append(runs[g], func() post {
							resp, err := iss.Evaluate(st.Request())
							return func() error {
								if err != nil {
									return fmt.Errorf("Evaluate: %v", err)
								}
								if _, err := st.FinalizeToken(resp); err != nil { // FinalizeToken re-verifies PSS under the pinned key
									return fmt.Errorf("concurrent Evaluate produced a response that does not finalize: %v", err)
								}
								return nil
							}
						})
					case "TokenKeyID":
						runs[g] = append(runs[g], func() post {
							id := iss.TokenKeyID()
							return func() error {
								if !bytes.Equal(id, wantID) {
									return fmt.Errorf("concurrent TokenKeyID differs")
								}
								return nil
							}
						})
					case "TokenKey":
						runs[g] = append(runs[g], func() post {
							k := iss.TokenKey()
							return func() error {
								if k.N.Cmp(pool.N) != 0 || k.E != pool.E {
									return fmt.Errorf("concurrent TokenKey differs")
								}
								return nil
							}
						})
					}
				}
			}
		case "type3-issuer":
			pool := gen.RSAPool()[int(seed[0])%8]
			iss := type3.NewRateLimitedIssuer(freshRSA(pool))
			_ = iss.AddOrigin("a.example")
			_ = iss.AddOrigin("b.example")
			wantID := type3.NewRateLimitedIssuer(pool).TokenKeyID()
			wantNK := iss.NameKey().Marshal()
			wantIdx := iss.OriginIndexKey("a.example").D.Bytes()
			for g := range p.Ops {
				for i, opn := range p.Ops[g] {
					switch opn {
					case "Evaluate":
						secret := bytes.Repeat([]byte{byte(0x10 + g), byte(i + 1)}, 20)
						blind := bytes.Repeat([]byte{byte(0x70 + g), byte(i + 1)}, 20)
						origin := []string{"a.example", "b.example"}[(g+i)%2]
						st, err := type3.NewRateLimitedClientFromSecret(secret).CreateTokenRequest(chal, nonce, blind, wantID, &pool.PublicKey, origin, iss.NameKey())
						if err != nil {
							prepErr = err
							return
						}
						enc := st.Request().Marshal()
						runs[g] = append(runs[g], func() post {
							resp, key, err := iss.Evaluate(enc)
							return func() error {
								if err != nil || len(key) != 49 {
									return fmt.Errorf("Evaluate: %v", err)
								}
								if _, err := st.FinalizeToken(resp); err != nil {
									return fmt.Errorf("concurrent Evaluate produced a response that does not finalize: %v", err)
								}
								return nil
							}
						})
					case "EvaluateUnknownOrigin":
						// a well-formed request for an origin that is not registered (a different one per call): the error path
						origin := fmt.Sprintf("unregistered-%d-%d.example", g, i)
						st, err := type3.NewRateLimitedClientFromSecret([]byte{byte(g + 1), byte(i + 1)}).CreateTokenRequest(chal, nonce, []byte{byte(i + 1), byte(g + 1)}, wantID, &pool.PublicKey, origin, iss.NameKey())
						if err != nil {
							prepErr = err
							return
						}
						enc := st.Request().Marshal()
						runs[g] = append(runs[g], func() post {
							resp, key, err := iss.Evaluate(enc)
							return func() error {
								if err == nil || resp != nil || key != nil {
									return fmt.Errorf("concurrent Evaluate served a request for an unregistered origin")
								}
								if msg := err.Error(); strings.Contains(msg, "unregistered-") && !strings.Contains(msg, origin) {
									return fmt.Errorf("concurrent Evaluate of a request for %q reports another call's origin: %q", origin, msg)
								}
								return nil
							}
						})
					case "TokenKeyID":
						runs[g] = append(runs[g], func() post {
							id := iss.TokenKeyID()
							return func() error {
								if !bytes.Equal(id, wantID) {
									return fmt.Errorf("concurrent TokenKeyID differs")
								}
								return nil
							}
						})
					case "NameKey":
						runs[g] = append(runs[g], func() post {
							nk := iss.NameKey().Marshal()
							return func() error {
								if !bytes.Equal(nk, wantNK) {
									return fmt.Errorf("concurrent NameKey differs")
								}
								return nil
							}
						})
					case "OriginIndexKey":
						runs[g] = append(runs[g], func() post {
							k := iss.OriginIndexKey("a.example")
							return func() error {
								if k == nil || !bytes.Equal(k.D.Bytes(), wantIdx) {
									return fmt.Errorf("concurrent OriginIndexKey differs")
								}
								return nil
							}
						})
					}
				}
			}
		case "batch-issuer":
			// two issuers per token type (a key rotation), distinct truncated key ids; every batch targets a drawn pair of keys
			var k1 [2]*oprf.PrivateKey
			var id1 [2][]byte
			for j, c := 0, 0; j < 2; c++ {
				k := gen.OPRFKey(oprf.SuiteP384, append(append([]byte{}, seed...), byte(c)))
				id := gen.OPRFKeyID(k)
				if j == 1 && id[31] == id1[0][31] {
					continue
				}
				k1[j], id1[j] = k, id
				j++
			}
			pools := [2]*rsa.PrivateKey{gen.RSAPool()[int(seed[0])%8], nil}
			id2 := [2][]byte{type2.NewBasicPublicIssuer(pools[0]).TokenKeyID(), nil}
			for c := 1; c < 8; c++ {
				cand := gen.RSAPool()[(int(seed[0])+c)%8]
				if id := type2.NewBasicPublicIssuer(cand).TokenKeyID(); id[31] != id2[0][31] {
					pools[1], id2[1] = cand, id
					break
				}
			}
			bi := batched.NewBasicBatchedIssuer(
				gen.Batch1{I: type1.NewBasicPrivateIssuer(gen.FreshOPRFKey(oprf.SuiteP384, k1[0]))}, gen.Batch2{I: type2.NewBasicPublicIssuer(freshRSA(pools[0]))},
				gen.Batch1{I: type1.NewBasicPrivateIssuer(gen.FreshOPRFKey(oprf.SuiteP384, k1[1]))}, gen.Batch2{I: type2.NewBasicPublicIssuer(freshRSA(pools[1]))})
			for g := range p.Ops {
				for i := range p.Ops[g] {
					a, b := (g+i)%2, (g/2+i)%2
					s1, err := type1.NewBasicPrivateClient().CreateTokenRequest(chal, nonce, id1[a], k1[a].Public())
					if err != nil {
						prepErr = err
						return
					}
					s2, err := type2.NewBasicPublicClient().CreateTokenRequest(chal, nonce, id2[b], &pools[b].PublicKey)
					if err != nil {
						prepErr = err
						return
					}
					br, err := batched.NewBasicClient().CreateTokenRequest([]tokens.TokenRequestWithDetails{s1.Request(), s2.Request()})
					if err != nil {
						prepErr = err
						return
					}
					runs[g] = append(runs[g], func() post {
						enc, err := bi.EvaluateBatch(br)
						return func() error {
							if err != nil {
								return fmt.Errorf("EvaluateBatch: %v", err)
							}
							list, err := batched.UnmarshalBatchedTokenResponses(enc)
							if err != nil || len(list) != 2 {
								return fmt.Errorf("concurrent EvaluateBatch response does not decode: %v", err)
							}
							if len(list[0]) == 0 || len(list[1]) == 0 {
								return fmt.Errorf("concurrent EvaluateBatch answered a valid request with an absent entry")
							}
							if _, err := s1.FinalizeToken(list[0]); err != nil {
								return fmt.Errorf("entry 0 does not finalize: %v", err)
							}
							if _, err := s2.FinalizeToken(list[1]); err != nil {
								return fmt.Errorf("entry 1 does not finalize: %v", err)
							}
							return nil
						}
					})
				}
			}
		case "two-verifiers":
			// two issuers of one type with DIFFERENT keys (a key rotation) are shown the same token at the same time: the one
			// that issued it accepts, the other refuses - whatever is shared between issuer objects process-wide
			typ := uint16(1 + 4*(int(seed[2])%2))
			suite := oprf.SuiteP384
			if typ == 5 {
				suite = oprf.SuiteRistretto255
			}
			kA, kB := gen.OPRFKey(suite, append(append([]byte{}, seed...), 'A')), gen.OPRFKey(suite, append(append([]byte{}, seed...), 'B'))
			idA, idB := gen.OPRFKeyID(kA), gen.OPRFKeyID(kB)
			var vA, vB func(tokens.Token) error
			if typ == 1 {
				vA, vB = type1.NewBasicPrivateIssuer(gen.FreshOPRFKey(suite, kA)).Verify, type1.NewBasicPrivateIssuer(gen.FreshOPRFKey(suite, kB)).Verify
			} else {
				vA, vB = type5.NewBatchedPrivateIssuer(gen.FreshOPRFKey(suite, kA)).Verify, type5.NewBatchedPrivateIssuer(gen.FreshOPRFKey(suite, kB)).Verify
			}
			inA, inB := gen.AuthInput(typ, nonce, chal, idA), gen.AuthInput(typ, nonce, chal, idB)
			tokA := tokens.Token{TokenType: typ, Nonce: nonce, Context: inA[34:66], KeyID: idA, Authenticator: gen.VOPRFOutput(suite, kA, inA)}
			tokB := tokens.Token{TokenType: typ, Nonce: nonce, Context: inB[34:66], KeyID: idB, Authenticator: gen.VOPRFOutput(suite, kB, inB)}
			for g := range p.Ops {
				for _, opn := range p.Ops[g] {
					opn := opn
					runs[g] = append(runs[g], func() post {
						var err error
						switch opn {
						case "VerifyAtOwn":
							err = vA(tokA)
						case "VerifyAtOther":
							err = vB(tokA)
						case "VerifyOtherTokenAtOther":
							err = vB(tokB)
						}
						return func() error {
							if opn == "VerifyAtOther" && err == nil {
								return fmt.Errorf("an issuer accepted a token issued under ANOTHER issuer's key while that issuer was verifying it")
							}
							if opn != "VerifyAtOther" && err != nil {
								return fmt.Errorf("%s: an issuer rejected its own token while another issuer was looking at the same bytes: %v", opn, err)
							}
							return nil
						}
					})
				}
			}
		case "rsa-key-ids":
			// several RSA token keys live in one process (key rotation, several issuers): their encodings and key ids are
			// computed concurrently, many times over, and every single value is compared with the sequential one
			// (computed by the harness's own DER template, not by the code under test)
			nKeys := 2 + int(seed[1])%3
			type entry struct {
				iss2   *type2.BasicPublicIssuer
				iss3   *type3.RateLimitedIssuer
				pub    *rsa.PublicKey
				wantID []byte
				want   []byte
			}
			var es []entry
			for k := 0; k < nKeys; k++ {
				pool := gen.RSAPool()[(int(seed[0])+k)%8]
				enc := ref.TokenKeyPSS(pool.N, big.NewInt(int64(pool.E)))
				id := sha256.Sum256(enc)
				i3 := type3.NewRateLimitedIssuer(freshRSA(pool))
				if i3 == nil {
					prepErr = fmt.Errorf("NewRateLimitedIssuer returned nil")
					return
				}
				es = append(es, entry{type2.NewBasicPublicIssuer(freshRSA(pool)), i3, &rsa.PublicKey{N: new(big.Int).Set(pool.N), E: pool.E}, id[:], enc})
			}
			for g := range p.Ops {
				for i, opn := range p.Ops[g] {
					e := es[(g+i)%nKeys]
					opn := opn
					runs[g] = append(runs[g], func() post {
						var bad []byte
						var err error
						for rep := 0; rep < 60 && bad == nil && err == nil; rep++ {
							var got, want []byte
							switch opn {
							case "KeyID2":
								got, want = e.iss2.TokenKeyID(), e.wantID
							case "KeyID3":
								got, want = e.iss3.TokenKeyID(), e.wantID
							case "MarshalTokenKey":
								got, err = util.MarshalTokenKeyPSSOID(e.pub)
								want = e.want
							}
							if err == nil && !bytes.Equal(got, want) {
								bad = append([]byte{}, got...)
							}
						}
						return func() error {
							if err != nil {
								return fmt.Errorf("%s: %v", opn, err)
							}
							if bad != nil {
								return fmt.Errorf("concurrent %s returned %x, which is not the value for this key (%d RSA keys in use at once)", opn, bad, nKeys)
							}
							return nil
						}
					})
				}
			}
		case "ecdsa-keys", "ecdsa-generate":
			// keys on all four curves are in use at the same time (per-curve state inside the package would be shared)
			type ecSet struct {
				c      elliptic.Curve
				sk, bk *patecdsa.PrivateKey
				wantBP *patecdsa.PublicKey
				r0, s0 *big.Int
				der0   []byte
			}
			ctx := []byte("ctx")
			digest := bytes.Repeat([]byte{0x42}, 32)
			var sets []ecSet
			for j, c := range []elliptic.Curve{elliptic.P256(), elliptic.P384(), elliptic.P521(), elliptic.P224()} {
				// the SHARED key objects are created here and not used before the goroutines start (anything computed or
				// normalised lazily inside a key object happens under concurrency); expectations come from separate objects
				// made from the same bytes. In half the plans the key bytes are longer than the group order (value >= N).
				skBytes, bkBytes := append([]byte{1, byte(j)}, seed[:20]...), append([]byte{2, byte(j)}, seed[:20]...)
				if seed[3]%2 == 0 {
					size := (c.Params().N.BitLen() + 7) / 8
					skBytes = append(bytes.Repeat([]byte{0xf1}, size+2-20), seed[:20]...)
					bkBytes = append(bytes.Repeat([]byte{0xe3}, size+1-20), seed[:20]...)
				}
				sk, _ := patecdsa.CreateKey(c, skBytes)
				bk, _ := patecdsa.CreateKey(c, bkBytes)
				skRef, _ := patecdsa.CreateKey(c, skBytes)
				bkRef, _ := patecdsa.CreateKey(c, bkBytes)
				bp, _ := patecdsa.BlindPublicKeyWithContext(c, &skRef.PublicKey, bkRef, ctx)
				r0, s0, _ := patecdsa.Sign(rt.NewDRBG(seed), skRef, digest)
				der0, _ := patecdsa.SignASN1(rt.NewDRBG(seed), skRef, digest)
				sets = append(sets, ecSet{c, sk, bk, bp, r0, s0, der0})
			}
			first := int(seed[1]) % 4
			for g := range p.Ops {
				for i, opn := range p.Ops[g] {
					e := sets[(first+g+i)%4]
					c, sk, bk, wantBP, r0, s0, der0 := e.c, e.sk, e.bk, e.wantBP, e.r0, e.s0, e.der0
					rnd := rt.NewDRBG(append([]byte{byte(g), byte(i)}, seed...)) // per-call entropy
					switch opn {
					case "Sign":
						runs[g] = append(runs[g], func() post {
							r, s, err := patecdsa.Sign(rnd, sk, digest)
							return func() error {
								if err != nil || !patecdsa.Verify(&sk.PublicKey, digest, r, s) {
									return fmt.Errorf("concurrent Sign produced an invalid signature (%v)", err)
								}
								return nil
							}
						})
					case "SignASN1":
						runs[g] = append(runs[g], func() post {
							der, err := sk.Sign(rnd, digest, crypto.SHA256)
							return func() error {
								if err != nil || !patecdsa.VerifyASN1(&sk.PublicKey, digest, der) {
									return fmt.Errorf("concurrent PrivateKey.Sign produced an invalid signature (%v)", err)
								}
								return nil
							}
						})
					case "Verify":
						runs[g] = append(runs[g], func() post {
							ok := patecdsa.Verify(&sk.PublicKey, digest, r0, s0)
							return func() error {
								if !ok {
									return fmt.Errorf("concurrent Verify rejected a valid signature")
								}
								return nil
							}
						})
					case "VerifyASN1":
						runs[g] = append(runs[g], func() post {
							ok := patecdsa.VerifyASN1(&sk.PublicKey, digest, der0)
							return func() error {
								if !ok {
									return fmt.Errorf("concurrent VerifyASN1 rejected a valid signature")
								}
								return nil
							}
						})
					case "BlindPublicKey":
						runs[g] = append(runs[g], func() post {
							bp, err := patecdsa.BlindPublicKeyWithContext(c, &sk.PublicKey, bk, ctx)
							return func() error {
								if err != nil || bp.X.Cmp(wantBP.X) != 0 || bp.Y.Cmp(wantBP.Y) != 0 {
									return fmt.Errorf("concurrent BlindPublicKeyWithContext differs from the sequential value")
								}
								return nil
							}
						})
					case "UnblindPublicKey":
						runs[g] = append(runs[g], func() post {
							up, err := patecdsa.UnblindPublicKeyWithContext(c, wantBP, bk, ctx)
							return func() error {
								if err != nil || up.X.Cmp(sk.X) != 0 || up.Y.Cmp(sk.Y) != 0 {
									return fmt.Errorf("concurrent UnblindPublicKeyWithContext differs from the sequential value")
								}
								return nil
							}
						})
					case "BlindKeySign":
						runs[g] = append(runs[g], func() post {
							r, s, err := patecdsa.BlindKeySignWithContext(rnd, sk, bk, digest, ctx)
							return func() error {
								if err != nil || !patecdsa.Verify(wantBP, digest, r, s) {
									return fmt.Errorf("concurrent BlindKeySignWithContext produced an invalid signature (%v)", err)
								}
								return nil
							}
						})
					case "Public":
						runs[g] = append(runs[g], func() post {
							pub := sk.Public().(*patecdsa.PublicKey)
							eq := pub.Equal(&sk.PublicKey)
							return func() error {
								if !eq {
									return fmt.Errorf("concurrent Public()/Equal differs")
								}
								return nil
							}
						})
					case "GenerateKey":
						runs[g] = append(runs[g], func() post {
							k, err := patecdsa.GenerateKey(c, rnd)
							return func() error {
								if err != nil || !c.IsOnCurve(k.X, k.Y) {
									return fmt.Errorf("concurrent GenerateKey produced an invalid key (%v)", err)
								}
								return nil
							}
						})
					}
				}
			}
		case "ed25519-keys":
			// three different key pairs are in use at the same time (per-key caches inside the package would be shared)
			type edKey struct {
				priv   pated.PrivateKey
				pub    pated.PublicKey
				sig0   []byte
				wantBP pated.PublicKey
				wantBS []byte
			}
			var edKeys []edKey
			blind := bytes.Repeat([]byte{0x19}, 32)
			ctx := []byte("ctx")
			msg := []byte("message")
			for j := 0; j < 3; j++ {
				priv := pated.NewKeyFromSeed(bytes.Repeat(append([]byte{byte(j)}, seed[:3]...), 8))
				pub := priv.Public().(pated.PublicKey)
				bp, _ := pated.BlindPublicKeyWithContext(pub, blind, ctx)
				edKeys = append(edKeys, edKey{priv, pub, pated.Sign(priv, msg), bp, pated.BlindKeySignWithContext(priv, msg, blind, ctx)})
			}
			for g := range p.Ops {
				for i, opn := range p.Ops[g] {
					k := edKeys[(g+i)%3]
					priv, pub, sig0, wantBP, wantBS := k.priv, k.pub, k.sig0, k.wantBP, k.wantBS
					switch opn {
					case "Sign":
						runs[g] = append(runs[g], func() post {
							sig := pated.Sign(priv, msg)
							return func() error {
								if !bytes.Equal(sig, sig0) {
									return fmt.Errorf("concurrent Sign differs from the sequential signature")
								}
								return nil
							}
						})
					case "Verify":
						runs[g] = append(runs[g], func() post {
							ok := pated.Verify(pub, msg, sig0)
							return func() error {
								if !ok {
									return fmt.Errorf("concurrent Verify rejected a valid signature")
								}
								return nil
							}
						})
					case "BlindPublicKey":
						runs[g] = append(runs[g], func() post {
							bp, err := pated.BlindPublicKeyWithContext(pub, blind, ctx) // the SAME blind slice is shared by all goroutines
							return func() error {
								if err != nil || !bytes.Equal(bp, wantBP) {
									return fmt.Errorf("concurrent BlindPublicKeyWithContext differs from the sequential value")
								}
								return nil
							}
						})
					case "UnblindPublicKey":
						runs[g] = append(runs[g], func() post {
							up, err := pated.UnblindPublicKeyWithContext(wantBP, blind, ctx)
							return func() error {
								if err != nil || !bytes.Equal(up, pub) {
									return fmt.Errorf("concurrent UnblindPublicKeyWithContext differs from the sequential value")
								}
								return nil
							}
						})
					case "BlindKeySign":
						runs[g] = append(runs[g], func() post {
							sig := pated.BlindKeySignWithContext(priv, msg, blind, ctx)
							return func() error {
								if !bytes.Equal(sig, wantBS) {
									return fmt.Errorf("concurrent BlindKeySignWithContext differs from the sequential signature")
								}
								return nil
							}
						})
					case "Public":
						runs[g] = append(runs[g], func() post {
							pk := priv.Public().(pated.PublicKey)
							return func() error {
								if !bytes.Equal(pk, pub) {
									return fmt.Errorf("concurrent Public differs")
								}
								return nil
							}
						})
					}
				}
			}
		case "clients":
			// independent clients, each with its own state, key copies and honest response, create and finalize requests at
			// the same time: nothing is shared between them except the library's package-level state
			for g := range p.Ops {
				for i, opn := range p.Ops[g] {
					typ := map[string]uint16{"Issue1": 1, "Issue2": 2, "Issue3": 3, "Issue5": 5}[opn]
					cseed := append([]byte{byte(g), byte(i)}, seed...)
					var okey *oprf.PrivateKey
					if typ == 1 {
						okey = gen.OPRFKey(oprf.SuiteP384, cseed)
					} else if typ == 5 {
						okey = gen.OPRFKey(oprf.SuiteRistretto255, cseed)
					}
					rsaKey := gen.RSAPool()[(g+i)%8]
					runs[g] = append(runs[g], func() post {
						err := issueOnce(typ, okey, rsaKey, chal, nonce, cseed)
						return func() error { return err }
					})
				}
			}
		case "ed25519-firstuse":
			// everything the goroutines need is prepared with crypto/ed25519, so that the goroutines' calls are the
			// first use of this package (and of its lazily built base-point tables) in the process
			seed32 := bytes.Repeat(seed[:4], 8)
			stdPriv := stded.NewKeyFromSeed(seed32)
			priv := pated.PrivateKey(append([]byte{}, stdPriv...))
			pub := pated.PublicKey(append([]byte{}, stdPriv[32:]...))
			msg := []byte("first use " + p.Seed)
			sig0 := stded.Sign(stdPriv, msg)
			for g := range p.Ops {
				for _, opn := range p.Ops[g] {
					switch opn {
					case "Sign":
						runs[g] = append(runs[g], func() post {
							sig := pated.Sign(priv, msg)
							return func() error {
								if !bytes.Equal(sig, sig0) {
									return fmt.Errorf("first concurrent Sign differs from crypto/ed25519's signature")
								}
								return nil
							}
						})
					case "Verify":
						runs[g] = append(runs[g], func() post {
							ok := pated.Verify(pub, msg, sig0)
							return func() error {
								if !ok {
									return fmt.Errorf("first concurrent Verify rejected a valid signature")
								}
								return nil
							}
						})
					case "NewKeyFromSeed":
						runs[g] = append(runs[g], func() post {
							k := pated.NewKeyFromSeed(seed32)
							return func() error {
								if !bytes.Equal(k, stdPriv) {
									return fmt.Errorf("first concurrent NewKeyFromSeed differs from crypto/ed25519")
								}
								return nil
							}
						})
					case "BlindKeySign":
						blind := bytes.Repeat([]byte{7}, 32)
						runs[g] = append(runs[g], func() post {
							sig := pated.BlindKeySign(priv, msg, blind)
							bp, err := pated.BlindPublicKey(pub, blind)
							return func() error {
								if err != nil || !stded.Verify(stded.PublicKey(bp), msg, sig) {
									return fmt.Errorf("first concurrent BlindKeySign produced a signature that does not verify under the blinded key")
								}
								return nil
							}
						})
					}
				}
			}
		case "ecdsa-firstuse":
			c := []elliptic.Curve{elliptic.P256(), elliptic.P384(), elliptic.P521(), elliptic.P224()}[int(seed[1])%4]
			stdKey, err := stdecdsa.GenerateKey(c, rt.NewDRBG(seed))
			if err != nil {
				prepErr = err
				return
			}
			sk := &patecdsa.PrivateKey{PublicKey: patecdsa.PublicKey{Curve: c, X: stdKey.X, Y: stdKey.Y}, D: stdKey.D}
			digest := bytes.Repeat([]byte{0x42}, 32)
			r0, s0, err := stdecdsa.Sign(rt.NewDRBG(seed), stdKey, digest)
			if err != nil {
				prepErr = err
				return
			}
			for g := range p.Ops {
				for i, opn := range p.Ops[g] {
					rnd := rt.NewDRBG(append([]byte{byte(g), byte(i)}, seed...))
					switch opn {
					case "Sign":
						runs[g] = append(runs[g], func() post {
							r, s, err := patecdsa.Sign(rnd, sk, digest)
							return func() error {
								if err != nil || !stdecdsa.Verify(&stdKey.PublicKey, digest, r, s) {
									return fmt.Errorf("first concurrent Sign produced an invalid signature (%v)", err)
								}
								return nil
							}
						})
					case "Verify":
						runs[g] = append(runs[g], func() post {
							ok := patecdsa.Verify(&sk.PublicKey, digest, r0, s0)
							return func() error {
								if !ok {
									return fmt.Errorf("first concurrent Verify rejected a valid signature")
								}
								return nil
							}
						})
					case "GenerateKey":
						runs[g] = append(runs[g], func() post {
							k, err := patecdsa.GenerateKey(c, rnd)
							return func() error {
								if err != nil || !c.IsOnCurve(k.X, k.Y) {
									return fmt.Errorf("first concurrent GenerateKey failed (%v)", err)
								}
								return nil
							}
						})
					}
				}
			}
		default:
			prepErr = fmt.Errorf("unknown kind %q", p.Kind)
		}
	}()
	if prepErr != nil {
		return fmt.Errorf("harness: preparing plan: %v", prepErr)
	}
	// ---- the concurrent part: crypto/rand.Reader is the real (goroutine-safe) one
	_ = rand.Reader
	old := runtime.GOMAXPROCS(p.GoMaxProcs)
	defer runtime.GOMAXPROCS(old)
	posts := make([][]post, nG)
	var wg sync.WaitGroup
	start := make(chan struct{})
	for g := 0; g < nG; g++ {
		wg.Add(1)
		go func(g int) {
			defer wg.Done()
			<-start
			for i := 0; i < p.Skew[g]; i++ {
				runtime.Gosched()
			}
			for _, r := range runs[g] {
				posts[g] = append(posts[g], r())
			}
		}(g)
	}
	close(start)
	wg.Wait()
	for g := range posts {
		for i, ps := range posts[g] {
			if err := ps(); err != nil {
				return fmt.Errorf("goroutine %d operation %d (%s): %v", g, i, p.Ops[g][i], err)
			}
		}
	}
	return nil
}

func writePlan(p Plan) {
	if rt.OutDir == "" {
		return
	}
	b, _ := json.Marshal(p)
	_ = os.WriteFile(filepath.Join(rt.OutDir, fmt.Sprintf("plan-%d.json", rt.Shard)), b, 0o644)
}

func TestConcurrentPlans(t *testing.T) {
	s := rt.S("plans").SetRule("a drawn plan: shared object kind (fresh type-1/2/3/5 issuer over a key whose lazily computed parts have not been computed, generic batch issuer, ECDSA signing/verification/blinding keys, Ed25519 keys), 2..16 goroutines (now and then a crowd of 70..260 with 1..2 operations each), 1..5 operations each (Evaluate, EvaluateBatch, Verify, TokenKeyID, TokenKey, NameKey, Sign, Verify, Blind*, Unblind*, GenerateKey) with per-call arguments prepared beforehand, start skew, GOMAXPROCS in {2,4,16}; the goroutines are the first to touch the object. oracle: (1) the Go race detector (binary built with -race, halt_on_error) reports nothing, (2) every result is one a sequential call could have produced (responses finalize to verifying tokens, key ids and blinded keys equal the sequential values, signatures verify). non-trivial = plan with >= 2 goroutines whose first operation touches the shared object (all plans); distinct by plan")
	rt.Check(t, 120, 16000, func(t *rapid.T) {
		kind := gen.Pick(t, kindNames(), "kind")
		nG := gen.UniformRange(t, 2, 16, "goroutines")
		if rapid.Bool().Draw(t, "few") {
			nG = gen.UniformRange(t, 2, 4, "goroutinesFew")
		}
		p := Plan{Kind: kind, Seed: fmt.Sprintf("%x", gen.Seed().Draw(t, "seed")), GoMaxProcs: gen.Pick(t, []int{2, 4, 16}, "gomaxprocs")}
		// now and then a CROWD: far more goroutines than cores, one or two operations each, all in flight at once (limits on
		// concurrent work, semaphores and pools that answer "busy" or hand out an entry twice only show beyond their size)
		crowd := gen.Uniform(t, 25, "crowd") == 0
		if crowd {
			nG = gen.Pick(t, []int{70, 130, 260}, "crowdSize")
			p.GoMaxProcs = 16
			s.Class("crowd")
		}
		for g := 0; g < nG; g++ {
			n := gen.UniformRange(t, 2, 6, "nops")
			if crowd {
				n = gen.UniformRange(t, 1, 2, "crowdOps")
			}
			var ops []string
			for i := 0; i < n; i++ {
				ops = append(ops, gen.Pick(t, kinds[kind], "op"))
			}
			p.Ops = append(p.Ops, ops)
			p.Skew = append(p.Skew, gen.Uniform(t, 4, "skew"))
		}
		writePlan(p)
		s.Eval()
		s.Class(kind)
		pb, _ := json.Marshal(p)
		s.Nontrivial(pb)
		if err := execute(p); err != nil {
			rt.Fail(t, "C17/"+kind+"/result", "%v; plan %s", err, pb)
			return
		}
		s.Sample(func() any { return p })
	})
}

// TestReplayPlan re-runs a recorded plan 50 times (schedules vary) under the race detector.
func TestReplayPlan(t *testing.T) {
	path := os.Getenv("VERIF_PLAN_REPLAY")
	if path == "" {
		t.Skip("no plan given")
	}
	b, err := os.ReadFile(path)
	if err != nil {
		t.Fatal(err)
	}
	var w struct {
		Plan *Plan `json:"plan"`
	}
	if err := json.Unmarshal(b, &w); err != nil || w.Plan == nil {
		t.Fatalf("bad plan file: %v", err)
	}
	for i := 0; i < 50; i++ {
		if err := execute(*w.Plan); err != nil {
			t.Fatalf("run %d: %v", i, err)
		}
	}
}

// ---------------------------------------------------------------- first use in a fresh process

// TestFirstUseChild runs one plan as the very first thing a process does with the library (invoked by TestFirstUseInFreshProcess).
func TestFirstUseChild(t *testing.T) {
	path := os.Getenv("VERIF_FIRSTUSE_PLAN")
	if path == "" {
		t.Skip("not a child")
	}
	b, err := os.ReadFile(path)
	if err != nil {
		t.Fatal(err)
	}
	var p Plan
	if err := json.Unmarshal(b, &p); err != nil {
		t.Fatal(err)
	}
	if err := execute(p); err != nil {
		t.Fatal(err)
	}
}

func TestFirstUseInFreshProcess(t *testing.T) {
	s := rt.S("first-use").SetRule("package-level state that is built lazily (Ed25519 base-point tables, ECDSA helper channel, circl group tables) is first touched concurrently: each case re-executes the test binary (race detector on) and runs a drawn plan as the first library use of that fresh process; the Ed25519/ECDSA kinds prepare keys and expected signatures with the standard library only. oracle as for plans: no race report (child exit status), results equal the sequential/standard-library values. non-trivial = every plan; distinct by plan")
	kindsFU := []string{"ed25519-firstuse", "ed25519-firstuse", "ecdsa-firstuse", "type1-issuer", "type5-issuer", "type2-issuer", "type3-issuer", "batch-issuer"}
	rt.Check(t, 10, 320, func(t *rapid.T) {
		kind := gen.Pick(t, kindsFU, "kind")
		nG := gen.UniformRange(t, 4, 16, "goroutines")
		p := Plan{Kind: kind, Seed: fmt.Sprintf("%x", gen.Seed().Draw(t, "seed")), GoMaxProcs: gen.Pick(t, []int{4, 16}, "gomaxprocs")}
		for g := 0; g < nG; g++ {
			n := gen.UniformRange(t, 1, 3, "nops")
			var ops []string
			for i := 0; i < n; i++ {
				ops = append(ops, gen.Pick(t, kinds[kind], "op"))
			}
			p.Ops = append(p.Ops, ops)
			p.Skew = append(p.Skew, gen.Uniform(t, 3, "skew"))
		}
		pb, _ := json.Marshal(p)
		dir := rt.OutDir
		if dir == "" {
			dir = os.TempDir()
		}
		planPath := filepath.Join(dir, fmt.Sprintf("firstuse-plan-%d.json", rt.Shard))
		if err := os.WriteFile(planPath, pb, 0o644); err != nil {
			t.Fatalf("harness: %v", err)
		}
		writePlan(p)
		s.Eval()
		s.Class(kind)
		s.Nontrivial(pb)
		cmd := exec.Command(os.Args[0], "-test.run", "^TestFirstUseChild$", "-test.count=1")
		cmd.Env = append(os.Environ(), "VERIF_FIRSTUSE_PLAN="+planPath, "VERIF_OUT=") // the child writes no statistics
		out, err := cmd.CombinedOutput()
		if err != nil {
			txt := string(out)
			if len(txt) > 6000 {
				txt = txt[:3000] + "\n...\n" + txt[len(txt)-3000:]
			}
			rt.Fail(t, "C17/first-use/"+kind, "a fresh process whose first library use is this concurrent plan failed (%v); plan %s\n%s", err, pb, txt)
			return
		}
		s.Sample(func() any { return p })
	})
}

// issueOnce runs one complete issuance (create, evaluate, finalize) of a type with objects nobody else uses and
// checks the token by independent means.
func issueOnce(typ uint16, okey *oprf.PrivateKey, rsaKey *rsa.PrivateKey, chal, nonce, secret []byte) error {
	sess := &gen.Session{Type: typ, Challenge: chal, Nonces: [][]byte{nonce}, OKey: okey, RKey: rsaKey}
	var toks []tokens.Token
	switch typ {
	case 1:
		iss := type1.NewBasicPrivateIssuer(okey)
		sess.KeyID = iss.TokenKeyID()
		st, err := type1.NewBasicPrivateClient().CreateTokenRequest(chal, nonce, sess.KeyID, iss.TokenKey())
		if err != nil {
			return err
		}
		resp, err := iss.Evaluate(st.Request())
		if err != nil {
			return err
		}
		tk, err := st.FinalizeToken(resp)
		if err != nil {
			return fmt.Errorf("concurrent independent client: honest type-1 response rejected: %v", err)
		}
		toks = []tokens.Token{tk}
	case 5:
		iss := type5.NewBatchedPrivateIssuer(okey)
		sess.KeyID = iss.TokenKeyID()
		sess.Nonces = [][]byte{nonce, nonce}
		st, err := type5.NewBatchedPrivateClient().CreateTokenRequest(chal, sess.Nonces, sess.KeyID, iss.TokenKey())
		if err != nil {
			return err
		}
		resp, err := iss.Evaluate(st.Request())
		if err != nil {
			return err
		}
		toks, err = st.FinalizeTokens(resp)
		if err != nil {
			return fmt.Errorf("concurrent independent client: honest type-5 response rejected: %v", err)
		}
	case 2:
		iss := type2.NewBasicPublicIssuer(rsaKey)
		sess.KeyID = iss.TokenKeyID()
		st, err := type2.NewBasicPublicClient().CreateTokenRequest(chal, nonce, sess.KeyID, iss.TokenKey())
		if err != nil {
			return err
		}
		resp, err := iss.Evaluate(st.Request())
		if err != nil {
			return err
		}
		tk, err := st.FinalizeToken(resp)
		if err != nil {
			return fmt.Errorf("concurrent independent client: honest type-2 response rejected: %v", err)
		}
		toks = []tokens.Token{tk}
	case 3:
		iss := type3.NewRateLimitedIssuer(rsaKey)
		if err := iss.AddOrigin("o.example"); err != nil {
			return err
		}
		sess.KeyID = iss.TokenKeyID()
		st, err := type3.NewRateLimitedClientFromSecret(secret[:20]).CreateTokenRequest(chal, nonce, secret[2:22], sess.KeyID, iss.TokenKey(), "o.example", iss.NameKey())
		if err != nil {
			return err
		}
		resp, _, err := iss.Evaluate(st.Request().Marshal())
		if err != nil {
			return err
		}
		tk, err := st.FinalizeToken(resp)
		if err != nil {
			return fmt.Errorf("concurrent independent client: honest type-3 response rejected: %v", err)
		}
		toks = []tokens.Token{tk}
	}
	if err := sess.CheckTokens(toks); err != nil {
		return fmt.Errorf("concurrent independent client (type %d): finalization returned no error but %v", typ, err)
	}
	return nil
}

// TestCrowds: for every issuer kind one plan in which far more goroutines than cores each make ONE evaluation at the
// same moment (100 in the quick tier, 100..400 in the thorough tier): limits on concurrent work that answer "busy", pools
// that hand out an entry twice and tables that are rebuilt while they grow only show beyond their size.
func TestCrowds(t *testing.T) {
	s := rt.S("crowds").SetRule("per issuer kind (type 1, 2, 3, 5, generic batch) one plan with 100 (thorough: 100..400) goroutines, one Evaluate / EvaluateBatch each, released together; same oracles as the drawn plans. non-trivial = every plan; distinct by plan")
	kindsAndOps := [][2]string{{"type2-issuer", "Evaluate"}, {"type3-issuer", "Evaluate"}, {"batch-issuer", "EvaluateBatch"}, {"type1-issuer", "Evaluate"}, {"type5-issuer", "Evaluate"}}
	rt.Check(t, 1, 16, func(t *rapid.T) {
		for _, ko := range kindsAndOps {
			nG := 100
			if rt.Thorough() {
				nG = gen.Pick(t, []int{100, 200, 400}, "goroutines")
			}
			p := Plan{Kind: ko[0], Seed: fmt.Sprintf("%x", gen.Seed().Draw(t, "seed")), GoMaxProcs: 16}
			for g := 0; g < nG; g++ {
				p.Ops = append(p.Ops, []string{ko[1]})
				p.Skew = append(p.Skew, 0)
			}
			writePlan(p)
			s.Eval()
			s.Class(ko[0])
			pb, _ := json.Marshal(p)
			s.Nontrivial(pb)
			if err := execute(p); err != nil {
				rt.Fail(t, "C17/"+ko[0]+"/crowd", "%v; plan: kind %s, %d goroutines with one %s each, seed %s", err, ko[0], nG, ko[1], p.Seed)
				return
			}
		}
		s.Sample(func() any { return "one crowd per issuer kind" })
	})
}
