package c06

import (
	"testing"

	"verifharness/internal/rt"
)

// The rapid properties of this package under the native, coverage-guided fuzzer (thorough tier): the fuzzer's
// byte string is the stream the property draws from (rt.FuzzProp), so generators, oracle and failure
// signatures are exactly those of the named test.

func FuzzPropVerifyRequest(f *testing.F) { rt.FuzzProp(f, rt.Capture(TestVerifyRequest)) }
