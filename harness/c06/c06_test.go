// C06 — the attester accepts a rate-limited request only if it is authentic.
package c06

import (
	"bytes"
	stdecdsa "crypto/ecdsa"
	"crypto/elliptic"
	"crypto/sha512"
	"fmt"
	"math/big"
	"sort"
	"testing"

	"github.com/cloudflare/pat-go/tokens/type3"
	"pgregory.net/rapid"

	"verifharness/internal/gen"
	"verifharness/internal/ref"
	"verifharness/internal/rt"
)

func TestMain(m *testing.M) { rt.Main(m) }

var clientBlindCtx = append([]byte{0x00, 0x03}, []byte("ClientBlind")...)

// authentic is the independent predicate: stdlib signature check over the
// request's exact contents, and request key == client key blinded with the blind (harness hash-to-field).
func authentic(req type3.RateLimitedTokenRequest, blindEnc, clientKeyEnc []byte) (bool, string) {
	c := elliptic.P384()
	x, y := elliptic.UnmarshalCompressed(c, req.RequestKey)
	if x == nil {
		return false, "request key is not a point"
	}
	if len(req.Signature) != 96 {
		return false, "signature length"
	}
	msg := ref.EncodeRateLimitedRequest(req.RequestKey, req.NameKeyID, req.EncryptedTokenRequest, nil)
	d := sha512.Sum384(msg)
	r, s := new(big.Int).SetBytes(req.Signature[:48]), new(big.Int).SetBytes(req.Signature[48:])
	if !stdecdsa.Verify(&stdecdsa.PublicKey{Curve: c, X: x, Y: y}, d[:], r, s) {
		return false, "signature does not verify under the request key"
	}
	cx, cy := elliptic.UnmarshalCompressed(c, clientKeyEnc)
	if cx == nil {
		return false, "client key is not a point"
	}
	bx, by := ref.ECDSABlindPublicKey(c, cx, cy, new(big.Int).SetBytes(blindEnc), clientBlindCtx)
	if bx.Sign() == 0 && by.Sign() == 0 {
		return false, "blinded key is the point at infinity"
	}
	if !bytes.Equal(elliptic.MarshalCompressed(c, bx, by), req.RequestKey) {
		return false, "request key is not the client key blinded with this blind"
	}
	return true, ""
}

type recCache struct {
	m    map[string]*type3.ClientState
	puts []string
}

func (c *recCache) Get(id string) (*type3.ClientState, bool) { s, ok := c.m[id]; return s, ok }
func (c *recCache) Put(id string, s *type3.ClientState)      { c.m[id] = s; c.puts = append(c.puts, id) }
func (c *recCache) snapshot() string {
	keys := make([]string, 0, len(c.m))
	for k := range c.m {
		keys = append(keys, k)
	}
	sort.Strings(keys)
	var b bytes.Buffer
	for _, k := range keys {
		fmt.Fprintf(&b, "%s=%p:%v;", k, c.m[k], *c.m[k])
	}
	return b.String()
}

func cloneReq(r *type3.RateLimitedTokenRequest) type3.RateLimitedTokenRequest {
	return type3.RateLimitedTokenRequest{
		RequestKey:            append([]byte{}, r.RequestKey...),
		NameKeyID:             append([]byte{}, r.NameKeyID...),
		EncryptedTokenRequest: append([]byte{}, r.EncryptedTokenRequest...),
		Signature:             append([]byte{}, r.Signature...),
	}
}

func flip(t *rapid.T, b []byte, label string) {
	if len(b) == 0 {
		return
	}
	bit := gen.Uniform(t, len(b)*8, label)
	b[bit/8] ^= 1 << (7 - bit%8)
}

func be48(v *big.Int) []byte { out := make([]byte, 48); v.FillBytes(out); return out }

func TestVerifyRequest(t *testing.T) {
	s := rt.S("verify-request").SetRule("honest (request, blind, client key) triples from real clients, then one mutation: bit flip in each request field, signature spliced from another client / another blind / another request, (r, N-s), r or s in {0, N, N+1, 2^384-1}, wrong blind (other scalar, leading-zero re-encoding, empty, b+kN, all-ff / zero / N / N+1 / 66 bytes), wrong client key (other client, negated point), malformed keys (not on curve, wrong length, uncompressed prefix); requests always carry a 96-byte signature (what the decoder produces). oracle: VerifyRequest==nil implies the independent predicate (crypto/ecdsa.Verify over the exact contents AND request key == harness-computed blinding of the client key); a call that errors or whose predicate is false makes no Put and leaves every stored state unchanged; unmutated triples must be accepted (health). non-trivial = mutated triple whose predicate is false; distinct by (request, blind, client key)")
	n := elliptic.P384().Params().N
	rt.Check(t, 700, 120000, func(t *rapid.T) {
		defer rt.Entropy(gen.Seed().Draw(t, "entropy"))()
		a, err := gen.NewSession(t, 3, gen.SessionOpts{RKeyIdx: -1})
		if err != nil {
			t.Fatalf("harness: %v", err)
		}
		origin := a.Origin
		// a second request by the same client (other blind), and another client, both against the same issuer
		mk := func(secret, blind []byte) type3.RateLimitedTokenRequestState {
			st, err := type3.NewRateLimitedClientFromSecret(secret).CreateTokenRequest(a.Challenge, a.Nonces[0], blind, a.KeyID, a.Issuer3.TokenKey(), origin, a.Issuer3.NameKey())
			if err != nil {
				t.Fatalf("harness: %v", err)
			}
			return st
		}
		otherBlind := gen.P384KeyBytes().Draw(t, "otherBlind")
		otherSecret := gen.P384KeyBytes().Draw(t, "otherSecret")
		if bytes.Equal(otherBlind, a.BlindKey) || bytes.Equal(otherSecret, a.ClientSecret) {
			t.Skip("equal draws")
		}
		sameClient := mk(a.ClientSecret, otherBlind)
		otherClient := mk(otherSecret, a.BlindKey)

		req := cloneReq(a.State3.Request())
		if rapid.Bool().Draw(t, "marshalledBefore") {
			// a value copy of the client's request object, which has already been marshalled (its encoding is cached
			// inside); the field slices are replaced by private copies so that mutating them does not touch the original
			req = *a.State3.Request()
			req.RequestKey = append([]byte{}, req.RequestKey...)
			req.NameKeyID = append([]byte{}, req.NameKeyID...)
			req.EncryptedTokenRequest = append([]byte{}, req.EncryptedTokenRequest...)
			req.Signature = append([]byte{}, req.Signature...)
		}
		blind := append([]byte{}, a.BlindKey...)
		clientKey := append([]byte{}, a.State3.ClientKey()...)
		anon := gen.Bytes32().Draw(t, "anonOrigin")

		cache := &recCache{m: map[string]*type3.ClientState{}}
		att := type3.NewRateLimitedAttester(cache)
		prepopulate := rapid.Bool().Draw(t, "prepopulate")
		if prepopulate {
			// honest registration of this client and the other one first
			if err := att.VerifyRequest(*a.State3.Request(), a.BlindKey, a.State3.ClientKey(), anon); err != nil {
				rt.Fail(t, "C06/honest-rejected", "honest request rejected: %v", err)
				return
			}
			_ = att.VerifyRequest(*otherClient.Request(), a.BlindKey, otherClient.ClientKey(), anon)
		}

		class := gen.Pick(t, []string{"honest", "flip-requestkey", "flip-namekeyid", "flip-ciphertext", "flip-signature",
			"sig-from-other-client", "sig-from-other-blind", "whole-request-other-blind", "sig-malleated", "sig-extreme",
			"blind-other", "blind-leading-zero", "blind-empty", "blind-plus-order", "blind-unusual-value", "sig-boundary-shifted-after-honest", "argument-boundary-shifted-after-honest", "clientkey-other", "clientkey-negated", "clientkey-malformed", "requestkey-malformed",
			"ciphertext-other-request", "requestkey-other-client", "namekeyid-extended", "namekeyid-shortened", "ciphertext-extended", "ciphertext-shortened",
			"requestkey-replaced-signed-by-blinded-key", "contents-changed-signed-by-blinded-key"}, "class")
		switch class {
		case "flip-requestkey":
			flip(t, req.RequestKey, "bit")
		case "flip-namekeyid":
			flip(t, req.NameKeyID, "bit")
		case "flip-ciphertext":
			flip(t, req.EncryptedTokenRequest, "bit")
		case "flip-signature":
			flip(t, req.Signature, "bit")
		case "sig-from-other-client":
			req.Signature = append([]byte{}, otherClient.Request().Signature...)
		case "sig-from-other-blind":
			req.Signature = append([]byte{}, sameClient.Request().Signature...)
		case "whole-request-other-blind":
			req = cloneReq(sameClient.Request()) // authentic for otherBlind, presented with a's blind
		case "sig-malleated":
			sv := new(big.Int).SetBytes(req.Signature[48:])
			copy(req.Signature[48:], be48(sv.Sub(n, sv)))
		case "sig-extreme":
			v := gen.Pick(t, []*big.Int{big.NewInt(0), n, new(big.Int).Add(n, big.NewInt(1)), new(big.Int).Sub(new(big.Int).Lsh(big.NewInt(1), 384), big.NewInt(1)), big.NewInt(1)}, "extreme")
			if rapid.Bool().Draw(t, "r") {
				copy(req.Signature[:48], be48(v))
			} else {
				copy(req.Signature[48:], be48(v))
			}
		case "blind-other":
			blind = otherBlind
		case "blind-leading-zero":
			blind = append(make([]byte, rapid.IntRange(1, 4).Draw(t, "zeros")), blind...) // same scalar, other encoding
		case "blind-empty":
			blind = []byte{}
		case "blind-plus-order":
			// b + k*N: the same residue mod N, but another blind (the blinding factor is derived from the blind's bytes)
			v := new(big.Int).SetBytes(blind)
			v.Add(v, new(big.Int).Mul(n, big.NewInt(int64(gen.UniformRange(t, 1, 3, "k")))))
			blind = v.Bytes()
		case "blind-unusual-value":
			blind = gen.Pick(t, [][]byte{bytes.Repeat([]byte{0xff}, 48), make([]byte, 48), n.Bytes(), new(big.Int).Add(n, big.NewInt(1)).Bytes(), {0}, {1}, bytes.Repeat([]byte{0xff}, 66)}, "value")
		case "clientkey-other":
			clientKey = append([]byte{}, otherClient.ClientKey()...)
		case "clientkey-negated":
			clientKey[0] ^= 0x01 // 02 <-> 03: same x, other y
		case "clientkey-malformed":
			switch gen.Uniform(t, 4, "mal") {
			case 0:
				clientKey = clientKey[:48]
			case 1:
				clientKey = append(clientKey, 0)
			case 2:
				clientKey[0] = 0x04
			case 3:
				for i := 1; i < len(clientKey); i++ {
					clientKey[i] = 0xff
				}
			}
		case "requestkey-malformed":
			switch gen.Uniform(t, 3, "mal") {
			case 0:
				req.RequestKey[0] = 0x04
			case 1:
				for i := 1; i < len(req.RequestKey); i++ {
					req.RequestKey[i] = 0xff
				}
			case 2:
				req.RequestKey = req.RequestKey[:48]
			}
		case "requestkey-replaced-signed-by-blinded-key", "contents-changed-signed-by-blinded-key":
			// the attacker IS the client: it holds the genuine blinded signing key d*r and signs whatever it likes with it.
			// Either the request key on the wire is replaced (another valid key, the unblinded client key, one bit flipped,
			// 49 bytes that are no point) - then the signature does not verify under the request key; or the contents
			// are changed and correctly re-signed - then the request is authentic again and may be accepted.
			dC := new(big.Int).SetBytes(a.ClientSecret)
			rB := ref.ECDSABlindScalar(elliptic.P384(), new(big.Int).SetBytes(a.BlindKey), clientBlindCtx)
			db := new(big.Int).Mod(new(big.Int).Mul(dC, rB), n)
			bx, by := elliptic.P384().ScalarBaseMult(db.Bytes())
			signer := &stdecdsa.PrivateKey{PublicKey: stdecdsa.PublicKey{Curve: elliptic.P384(), X: bx, Y: by}, D: db}
			if class == "requestkey-replaced-signed-by-blinded-key" {
				switch gen.Uniform(t, 4, "replacement") {
				case 0:
					req.RequestKey = append([]byte{}, otherClient.Request().RequestKey...)
				case 1:
					req.RequestKey = append([]byte{}, a.State3.ClientKey()...) // the unblinded client key
				case 2:
					flip(t, req.RequestKey, "bit")
				case 3:
					for i := 1; i < len(req.RequestKey); i++ {
						req.RequestKey[i] = 0xff
					}
				}
			} else {
				flip(t, req.EncryptedTokenRequest, "bit")
			}
			msg := ref.EncodeRateLimitedRequest(req.RequestKey, req.NameKeyID, req.EncryptedTokenRequest, nil)
			dg := sha512.Sum384(msg)
			rr, ss, err := stdecdsa.Sign(rt.NewDRBG(gen.Seed().Draw(t, "signEntropy")), signer, dg[:])
			if err != nil {
				t.Fatalf("harness: %v", err)
			}
			req.Signature = append(be48(rr), be48(ss)...)
		case "sig-boundary-shifted-after-honest":
			// an authentic signature whose r has a leading zero byte is verified first (same process, same attester); then the
			// boundary between r and s is moved by one byte: r' = r[1:] || s[0], s' = 00 || s[1:]. The two (r, s) pairs have the
			// same concatenation of minimal encodings, and the second one is not a valid signature.
			dC := new(big.Int).SetBytes(a.ClientSecret)
			rB := ref.ECDSABlindScalar(elliptic.P384(), new(big.Int).SetBytes(a.BlindKey), clientBlindCtx)
			db := new(big.Int).Mod(new(big.Int).Mul(dC, rB), n)
			bx, by := elliptic.P384().ScalarBaseMult(db.Bytes())
			signer := &stdecdsa.PrivateKey{PublicKey: stdecdsa.PublicKey{Curve: elliptic.P384(), X: bx, Y: by}, D: db}
			dg := sha512.Sum384(ref.EncodeRateLimitedRequest(req.RequestKey, req.NameKeyID, req.EncryptedTokenRequest, nil))
			entropy := rt.NewDRBG(gen.Seed().Draw(t, "signEntropy"))
			var sig []byte
			for try := 0; try < 20000; try++ {
				rr, ss, err := stdecdsa.Sign(entropy, signer, dg[:])
				if err != nil {
					t.Fatalf("harness: %v", err)
				}
				if rr.BitLen() <= 376 {
					sig = append(be48(rr), be48(ss)...)
					break
				}
			}
			if sig == nil {
				t.Skip("no signature with a short r found")
			}
			req.Signature = sig
			if err := att.VerifyRequest(req, append([]byte{}, blind...), append([]byte{}, clientKey...), anon); err != nil {
				rt.Fail(t, "C06/honest-rejected", "authentic request (re-signed with the client's blinded key; r has a leading zero byte) rejected: %v", err)
				return
			}
			shifted := make([]byte, 96)
			copy(shifted[:47], sig[1:48])
			shifted[47] = sig[48]
			copy(shifted[49:], sig[49:])
			req.Signature = shifted
		case "argument-boundary-shifted-after-honest":
			// the authentic triple is verified first (same attester); then the same request is presented with the boundary
			// between the two byte-string arguments moved: client key || blind is the same concatenation, cut elsewhere
			if err := att.VerifyRequest(req, append([]byte{}, blind...), append([]byte{}, clientKey...), anon); err != nil {
				rt.Fail(t, "C06/honest-rejected", "honest request rejected: %v", err)
				return
			}
			cat := append(append([]byte{}, clientKey...), blind...)
			cut := gen.Pick(t, []int{len(clientKey) - 1, len(clientKey) + 1, len(clientKey) + 2, len(clientKey) - 16, 33, 1}, "cut")
			if cut < 0 || cut > len(cat) || cut == len(clientKey) {
				cut = len(clientKey) - 1
			}
			clientKey, blind = append([]byte{}, cat[:cut]...), append([]byte{}, cat[cut:]...)
		case "namekeyid-extended":
			req.NameKeyID = append(req.NameKeyID, gen.Bytes(t, 1, 4, "extra")...)
		case "namekeyid-shortened":
			req.NameKeyID = req.NameKeyID[:len(req.NameKeyID)-gen.UniformRange(t, 1, 3, "drop")]
		case "ciphertext-extended":
			req.EncryptedTokenRequest = append(req.EncryptedTokenRequest, gen.Bytes(t, 1, 4, "extra")...)
		case "ciphertext-shortened":
			req.EncryptedTokenRequest = req.EncryptedTokenRequest[:len(req.EncryptedTokenRequest)-1]
		case "ciphertext-other-request":
			req.EncryptedTokenRequest = append([]byte{}, sameClient.Request().EncryptedTokenRequest...)
		case "requestkey-other-client":
			req.RequestKey = append([]byte{}, otherClient.Request().RequestKey...)
		}
		ok, why := authentic(req, blind, clientKey)
		s.Eval()
		s.Class(class)
		before := cache.snapshot()
		putsBefore := len(cache.puts)
		var verr error
		o := rt.GuardLite(func() { verr = att.VerifyRequest(req, blind, clientKey, anon) })
		if o.Panic != nil {
			// "every other request is answered with an error": a panic is not an answer
			rt.Fail(t, "C06/panic/"+class, "VerifyRequest panicked (%v) on a request of class %s", o.Panic, class)
			return
		}
		if class == "honest" || class == "blind-leading-zero" || class == "sig-malleated" {
			if !ok {
				t.Fatalf("harness: predicate is false for class %s: %s", class, why)
			}
		}
		if class == "honest" && verr != nil {
			rt.Fail(t, "C06/honest-rejected", "honest request rejected: %v", verr)
			return
		}
		if verr == nil && !ok {
			rt.Fail(t, "C06/accepted-unauthentic/"+class, "VerifyRequest returned nil for a request that is not authentic (%s; class %s)", why, class)
			return
		}
		if verr != nil || !ok {
			if len(cache.puts) != putsBefore {
				rt.Fail(t, "C06/state-created/"+class, "a rejected request (%v; predicate %v) caused a cache Put for %v", verr, ok, cache.puts[putsBefore:])
				return
			}
			if after := cache.snapshot(); after != before {
				rt.Fail(t, "C06/state-altered/"+class, "a rejected request altered cached client state:\nbefore %s\nafter  %s", before, after)
				return
			}
		}
		if ok {
			s.Class("predicate:authentic")
			if verr == nil && !prepopulate {
				// an accepted request of an unknown client registers exactly that client
				// (how the attester names the client in its cache is its own business; only the count is looked at)
				if len(cache.puts) < putsBefore+1 {
					s.Class("accepted-without-put")
				}
			}
		} else {
			s.Class("predicate:not-authentic")
			s.Nontrivial(req.RequestKey, req.NameKeyID, req.EncryptedTokenRequest, req.Signature, blind, clientKey)
		}
		s.Sample(func() any {
			return map[string]any{"class": class, "authentic": ok, "why_not": why, "result": fmt.Sprint(verr), "request_key": rt.Hex(req.RequestKey), "blind": rt.Hex(blind), "client_key": rt.Hex(clientKey)}
		})
	})
}
