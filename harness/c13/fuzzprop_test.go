package c13

import (
	"testing"

	"verifharness/internal/rt"
)

// The rapid properties of this package under the native, coverage-guided fuzzer (thorough tier): the fuzzer's
// byte string is the stream the property draws from (rt.FuzzProp), so generators, oracle and failure
// signatures are exactly those of the named test.

func FuzzPropVerifyDifferential(f *testing.F) { rt.FuzzProp(f, rt.Capture(TestVerifyDifferential)) }
func FuzzPropVerifyASN1Differential(f *testing.F) {
	rt.FuzzProp(f, rt.Capture(TestVerifyASN1Differential))
}
func FuzzPropSignaturesInterop(f *testing.F)    { rt.FuzzProp(f, rt.Capture(TestSignaturesInterop)) }
func FuzzPropWrapAround(f *testing.F)           { rt.FuzzProp(f, rt.Capture(TestWrapAroundSignatures)) }
func FuzzPropChosenNonceForgeries(f *testing.F) { rt.FuzzProp(f, rt.Capture(TestChosenNonceForgeries)) }
func FuzzPropVerifyAfterVerify(f *testing.F)    { rt.FuzzProp(f, rt.Capture(TestVerifyAfterVerify)) }
