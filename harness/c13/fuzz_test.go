package c13

import (
	"bytes"
	stdecdsa "crypto/ecdsa"
	"math/big"
	"testing"

	patecdsa "github.com/cloudflare/pat-go/ecdsa"

	"verifharness/internal/rt"
)

// FuzzVerifyASN1: coverage-guided differential against crypto/ecdsa.VerifyASN1 on fixed keys of the four curves.
func FuzzVerifyASN1(f *testing.F) {
	type kp struct {
		pat *patecdsa.PrivateKey
		std *stdecdsa.PrivateKey
	}
	var keys []kp
	for i, c := range curves {
		d := new(big.Int).SetBytes(bytes.Repeat([]byte{byte(0x31 + i)}, 24))
		pk, _ := patecdsa.CreateKey(c, d.Bytes())
		x, y := c.ScalarBaseMult(d.Bytes())
		keys = append(keys, kp{pk, &stdecdsa.PrivateKey{PublicKey: stdecdsa.PublicKey{Curve: c, X: x, Y: y}, D: d}})
		digest := bytes.Repeat([]byte{7}, 20+16*i)
		sig, _ := stdecdsa.SignASN1(rt.NewDRBG([]byte{byte(i)}), keys[i].std, digest)
		f.Add(byte(i), digest, sig)
		r, s, _ := stdecdsa.Sign(rt.NewDRBG([]byte{byte(i), 1}), keys[i].std, digest)
		f.Add(byte(i), digest, derSeq(derInt(r), derInt(new(big.Int).Sub(c.Params().N, s))))
		f.Add(byte(i), digest, derSeq(derInt(new(big.Int).Add(r, c.Params().N)), derInt(s)))
	}
	f.Add(byte(0), []byte{}, []byte{0x30, 0x06, 0x02, 0x01, 0x00, 0x02, 0x01, 0x00})
	f.Add(byte(3), bytes.Repeat([]byte{1}, 66), []byte{0x30, 0x80, 0x02, 0x01, 0x01, 0x02, 0x01, 0x01, 0x00, 0x00})
	f.Fuzz(func(t *testing.T, ci byte, digest, sig []byte) {
		k := keys[int(ci)%len(keys)]
		want := stdecdsa.VerifyASN1(&k.std.PublicKey, digest, sig)
		got := patecdsa.VerifyASN1(&k.pat.PublicKey, digest, sig)
		if got != want {
			t.Fatalf("SIG=C13/fuzz/verifyasn1-verdict fork %v, crypto/ecdsa %v; curve %s digest %x sig %x", got, want, k.std.Curve.Params().Name, digest, sig)
		}
	})
}
