// C13 — the ECDSA fork accepts and produces exactly standard ECDSA.
package c13

import (
	"bytes"
	"crypto"
	stdecdsa "crypto/ecdsa"
	"crypto/elliptic"
	"crypto/sha256"
	"errors"
	"fmt"
	"io"
	"math/big"
	"sync"
	"testing"

	patecdsa "github.com/cloudflare/pat-go/ecdsa"
	"pgregory.net/rapid"

	"verifharness/internal/gen"
	"verifharness/internal/rt"
)

func TestMain(m *testing.M) { rt.Main(m) }

var curves = []elliptic.Curve{elliptic.P224(), elliptic.P256(), elliptic.P384(), elliptic.P521()}

func drawKey(t *rapid.T, c elliptic.Curve) (*patecdsa.PrivateKey, *stdecdsa.PrivateKey) {
	n := c.Params().N
	raw := rapid.SliceOfN(rapid.Byte(), 80, 80).Draw(t, "d")
	d := new(big.Int).SetBytes(raw)
	d.Mod(d, new(big.Int).Sub(n, big.NewInt(1)))
	d.Add(d, big.NewInt(1))
	switch gen.Uniform(t, 10, "dkind") {
	case 0:
		d.SetInt64(1)
	case 1:
		d.Sub(n, big.NewInt(1))
	}
	dBuf := d.Bytes()
	if gen.Uniform(t, 8, "oversizeEncoding") == 0 {
		// the same key given as d + k*N in an encoding longer than the scalar size: CreateKey takes any byte string
		k := new(big.Int).Lsh(big.NewInt(int64(gen.UniformRange(t, 1, 1000, "k"))), uint(8*gen.UniformRange(t, 1, 8, "shift")))
		dBuf = new(big.Int).Add(d, new(big.Int).Mul(k, n)).Bytes()
	}
	pk, err := patecdsa.CreateKey(c, dBuf)
	if err != nil {
		t.Fatalf("CreateKey: %v", err)
	}
	for i := range dBuf {
		dBuf[i] ^= 0xFF // the caller reuses its buffer: the key must not alias it
	}
	x, y := c.ScalarBaseMult(d.Bytes())
	return pk, &stdecdsa.PrivateKey{PublicKey: stdecdsa.PublicKey{Curve: c, X: x, Y: y}, D: d}
}

// adversarial integer relative to the group order and an honest value
func drawInt(t *rapid.T, n, honest *big.Int, label string) *big.Int {
	one := big.NewInt(1)
	switch gen.Uniform(t, 14, label+"/kind") {
	case 0:
		return new(big.Int)
	case 1:
		return big.NewInt(1)
	case 2:
		return big.NewInt(-1)
	case 3:
		return new(big.Int).Sub(n, one)
	case 4:
		return new(big.Int).Set(n)
	case 5:
		return new(big.Int).Add(n, one)
	case 6:
		return new(big.Int).Add(honest, n) // r + N
	case 7:
		return new(big.Int).Sub(n, honest) // N - s
	case 8:
		return new(big.Int).Neg(honest)
	case 9:
		return new(big.Int).Lsh(one, uint(gen.UniformRange(t, 0, 600, label+"/pow")))
	case 10:
		return new(big.Int).SetBytes(gen.Bytes(t, 0, 80, label+"/rand"))
	case 11:
		return new(big.Int).Mul(honest, big.NewInt(2))
	}
	return new(big.Int).Set(honest)
}

func TestVerifyDifferential(t *testing.T) {
	s := rt.S("verify-rs").SetRule("valid public key on P-224/256/384/521, digest of length 0..128, (r,s) drawn from: an honest signature, (r,N-s), 0, +-1, N-1, N, N+1, r+N, negatives, 2^k, random up to 640 bits, 2s; oracle: fork Verify == crypto/ecdsa.Verify (Go 1.23.5). non-trivial = (r,s) differs from the honest pair; distinct by (curve, key, digest, r, s)")
	rt.Check(t, 2000, 160000, func(t *rapid.T) {
		c := gen.Pick(t, curves, "curve")
		pk, sk := drawKey(t, c)
		digest := gen.Digest(t, "digest")
		hr, hs, err := stdecdsa.Sign(rt.NewDRBG(gen.Seed().Draw(t, "entropy")), sk, digest)
		if err != nil {
			t.Fatalf("std sign: %v", err)
		}
		r, sv := hr, hs
		switch gen.Uniform(t, 6, "mode") {
		case 0: // honest pair
		case 1: // the malleated twin (r, N-s) is a valid signature too
			sv = new(big.Int).Sub(c.Params().N, hs)
		case 2:
			r = drawInt(t, c.Params().N, hr, "r")
		case 3:
			sv = drawInt(t, c.Params().N, hs, "s")
		default:
			r, sv = drawInt(t, c.Params().N, hr, "r"), drawInt(t, c.Params().N, hs, "s")
		}
		if gen.Uniform(t, 5, "otherdigest") == 0 {
			digest = append(append([]byte{}, digest...), 1)
		}
		s.Eval()
		s.Class(c.Params().Name)
		want := stdecdsa.Verify(&sk.PublicKey, digest, r, sv)
		r0, s0, d0 := new(big.Int).Set(r), new(big.Int).Set(sv), append([]byte{}, digest...)
		var got, again bool
		if o := rt.GuardLite(func() {
			got = patecdsa.Verify(&pk.PublicKey, digest, r, sv)
			again = patecdsa.Verify(&pk.PublicKey, digest, r, sv) // the same signature object, a second time
		}); o.Panic != nil {
			rt.Fail(t, "C13/verify-panic", "fork Verify panicked on r=%x s=%x: %v", r, sv, o.Panic)
			return
		}
		if r.Cmp(r0) != 0 || sv.Cmp(s0) != 0 || !bytes.Equal(digest, d0) {
			rt.Fail(t, "C13/verify-mutates-arguments", "fork Verify changed its arguments: r %x -> %x, s %x -> %x", r0, r, s0, sv)
			return
		}
		if again != got {
			rt.Fail(t, "C13/verify-not-repeatable", "verifying the same (r,s) object twice gives %v then %v (crypto/ecdsa: %v)", got, again, want)
			return
		}
		if want {
			s.Class("std:valid")
		} else {
			s.Class("std:invalid")
		}
		if got != want {
			rt.Fail(t, "C13/"+c.Params().Name+"/verify-verdict", "fork Verify=%v, crypto/ecdsa.Verify=%v; digest %x r %x s %x", got, want, digest, r, sv)
			return
		}
		if r.Cmp(hr) != 0 || sv.Cmp(hs) != 0 {
			s.Nontrivial([]byte(c.Params().Name), sk.D.Bytes(), digest, []byte(r.String()), []byte(sv.String()))
		}
		s.Sample(func() any {
			return map[string]any{"curve": c.Params().Name, "r": r.String(), "s": sv.String(), "verdict": got}
		})
	})
}

// ---- DER

func derLen(n int) []byte {
	if n < 0x80 {
		return []byte{byte(n)}
	}
	if n < 0x100 {
		return []byte{0x81, byte(n)}
	}
	return []byte{0x82, byte(n >> 8), byte(n)}
}

func derInt(v *big.Int) []byte {
	b := v.Bytes()
	if len(b) == 0 {
		b = []byte{0}
	}
	if b[0]&0x80 != 0 {
		b = append([]byte{0}, b...)
	}
	return append(append([]byte{0x02}, derLen(len(b))...), b...)
}

func derSeq(parts ...[]byte) []byte {
	body := bytes.Join(parts, nil)
	return append(append([]byte{0x30}, derLen(len(body))...), body...)
}

func drawDER(t *rapid.T, r, sv *big.Int) ([]byte, string) {
	ri, si := derInt(r), derInt(sv)
	switch gen.Uniform(t, 16, "der") {
	case 0:
		return derSeq(ri, si), "valid"
	case 1: // non-minimal integer (extra leading zero)
		x := append([]byte{0x02}, append(derLen(len(ri)-2+1), append([]byte{0}, ri[2+len(derLen(len(ri)-2))-1:]...)...)...)
		return derSeq(x, si), "non-minimal-int"
	case 2: // negative integer (top bit set, no padding)
		b := r.Bytes()
		if len(b) == 0 {
			b = []byte{0x80}
		}
		b[0] |= 0x80
		return derSeq(append(append([]byte{0x02}, derLen(len(b))...), b...), si), "negative-int"
	case 3:
		return append(derSeq(ri, si), gen.Bytes(t, 1, 5, "tail")...), "trailing-outside"
	case 4:
		return derSeq(ri, si, gen.Bytes(t, 1, 5, "tail")), "trailing-inside"
	case 5: // long-form length where short form suffices
		body := append(append([]byte{}, ri...), si...)
		if len(body) < 0x80 {
			return append([]byte{0x30, 0x81, byte(len(body))}, body...), "long-form-length"
		}
		return append([]byte{0x30, 0x82, 0x00, byte(len(body))}, body...), "long-form-length"
	case 6: // indefinite length
		body := append(append([]byte{}, ri...), si...)
		return append(append([]byte{0x30, 0x80}, body...), 0, 0), "indefinite-length"
	case 7:
		d := derSeq(ri, si)
		d[0] = gen.Pick(t, []byte{0x31, 0x10, 0x70, 0xA0, 0x04}, "tag")
		return d, "wrong-outer-tag"
	case 8:
		x := append([]byte{}, ri...)
		x[0] = gen.Pick(t, []byte{0x03, 0x04, 0x22, 0x0A}, "tag")
		return derSeq(x, si), "wrong-int-tag"
	case 9:
		return []byte{}, "empty"
	case 10:
		return derSeq(ri), "one-integer"
	case 11:
		return derSeq(ri, si, si), "three-integers"
	case 12:
		d := derSeq(ri, si)
		return d[:gen.Uniform(t, len(d), "cut")], "truncated"
	case 13:
		return gen.Bytes(t, 0, 120, "random"), "random"
	case 14:
		d := derSeq(ri, si)
		bit := gen.Uniform(t, len(d)*8, "bit")
		d[bit/8] ^= 1 << (7 - bit%8)
		return d, "bitflip"
	}
	return derSeq(derInt(big.NewInt(0)), si), "zero-r"
}

func TestVerifyASN1Differential(t *testing.T) {
	s := rt.S("verify-asn1").SetRule("byte strings offered as ASN.1 signatures: valid DER of (honest and adversarial) r,s and mutations - non-minimal and negative INTEGERs, trailing bytes inside/outside the SEQUENCE, long-form and indefinite lengths, wrong tags, one or three integers, truncations, bit flips, random bytes; oracle: fork VerifyASN1 == crypto/ecdsa.VerifyASN1. non-trivial = not the valid encoding of the honest signature; distinct by (curve, key, digest, bytes)")
	rt.Check(t, 2000, 160000, func(t *rapid.T) {
		c := gen.Pick(t, curves, "curve")
		pk, sk := drawKey(t, c)
		digest := gen.Digest(t, "digest")
		hr, hs, err := stdecdsa.Sign(rt.NewDRBG(gen.Seed().Draw(t, "entropy")), sk, digest)
		if err != nil {
			t.Fatalf("std sign: %v", err)
		}
		r, sv := hr, hs
		if gen.Uniform(t, 3, "adversarial") == 0 {
			r = new(big.Int).Abs(drawInt(t, c.Params().N, hr, "r"))
			sv = new(big.Int).Abs(drawInt(t, c.Params().N, hs, "s"))
		}
		sig, class := drawDER(t, r, sv)
		s.Eval()
		s.Class(class)
		want := stdecdsa.VerifyASN1(&sk.PublicKey, digest, sig)
		var got bool
		if o := rt.GuardLite(func() { got = patecdsa.VerifyASN1(&pk.PublicKey, digest, sig) }); o.Panic != nil {
			rt.Fail(t, "C13/verifyasn1-panic", "fork VerifyASN1 panicked on %x: %v", sig, o.Panic)
			return
		}
		if want {
			s.Class("std:valid")
		}
		if got != want {
			rt.Fail(t, "C13/"+c.Params().Name+"/verifyasn1-verdict/"+class, "fork VerifyASN1=%v, crypto/ecdsa.VerifyASN1=%v; class %s sig %x", got, want, class, sig)
			return
		}
		if class != "valid" || r != hr {
			s.Nontrivial([]byte(c.Params().Name), sk.D.Bytes(), digest, sig)
		}
		s.Sample(func() any {
			return map[string]any{"curve": c.Params().Name, "class": class, "sig": rt.Hex(sig), "verdict": got}
		})
	})
}

func TestSignaturesInterop(t *testing.T) {
	s := rt.S("sign-interop").SetRule("every signing entry point of the fork (Sign, SignASN1, PrivateKey.Sign, BlindKeySign, BlindKeySignWithContext) with drawn key, digest (0..128 bytes) and entropy: the signature verifies under crypto/ecdsa (raw and ASN.1); every crypto/ecdsa signature (Sign, SignASN1) verifies under the fork; r,s in [1,N-1]. non-trivial = every case; distinct by (curve, key, digest, entropy)")
	rt.Check(t, 400, 40000, func(t *rapid.T) {
		c := gen.Pick(t, curves, "curve")
		pk, sk := drawKey(t, c)
		digest := gen.Digest(t, "digest")
		seed := gen.Seed().Draw(t, "entropy")
		s.Eval()
		s.Class(c.Params().Name)
		s.Nontrivial([]byte(c.Params().Name), sk.D.Bytes(), digest, seed)
		n := c.Params().N
		inRange := func(v *big.Int) bool { return v.Sign() > 0 && v.Cmp(n) < 0 }
		r, sv, err := patecdsa.Sign(rt.NewDRBG(seed), pk, digest)
		if err != nil || !inRange(r) || !inRange(sv) || !stdecdsa.Verify(&sk.PublicKey, digest, r, sv) {
			rt.Fail(t, "C13/sign", "fork Sign output (%v) does not verify under crypto/ecdsa: r %x s %x", err, r, sv)
			return
		}
		der, err := patecdsa.SignASN1(rt.NewDRBG(seed), pk, digest)
		if err != nil || !stdecdsa.VerifyASN1(&sk.PublicKey, digest, der) {
			rt.Fail(t, "C13/signasn1", "fork SignASN1 output (%v) does not verify under crypto/ecdsa: %x", err, der)
			return
		}
		der2, err := pk.Sign(rt.NewDRBG(seed), digest, crypto.SHA256)
		if err != nil || !stdecdsa.VerifyASN1(&sk.PublicKey, digest, der2) {
			rt.Fail(t, "C13/signer", "fork PrivateKey.Sign output (%v) does not verify under crypto/ecdsa: %x", err, der2)
			return
		}
		// key-blinded signing: verifies under the blinded key with crypto/ecdsa
		bk, _ := patecdsa.CreateKey(c, gen.Bytes(t, 1, 60, "blind"))
		ctx := gen.Bytes(t, 0, 20, "ctx")
		br, bs, err := patecdsa.BlindKeySignWithContext(rt.NewDRBG(seed), pk, bk, digest, ctx)
		bpk, err2 := patecdsa.BlindPublicKeyWithContext(c, &pk.PublicKey, bk, ctx)
		if err != nil || err2 != nil || !stdecdsa.Verify(&stdecdsa.PublicKey{Curve: c, X: bpk.X, Y: bpk.Y}, digest, br, bs) {
			rt.Fail(t, "C13/blindsign", "BlindKeySignWithContext output (%v,%v) does not verify under crypto/ecdsa with the blinded key", err, err2)
			return
		}
		br, bs, err = patecdsa.BlindKeySign(rt.NewDRBG(seed), pk, bk, digest)
		bpk, err2 = patecdsa.BlindPublicKey(c, &pk.PublicKey, bk)
		if err != nil || err2 != nil || !stdecdsa.Verify(&stdecdsa.PublicKey{Curve: c, X: bpk.X, Y: bpk.Y}, digest, br, bs) {
			rt.Fail(t, "C13/blindsign", "BlindKeySign output (%v,%v) does not verify under crypto/ecdsa with the blinded key", err, err2)
			return
		}
		// standard signatures under the fork
		sr, ss, err := stdecdsa.Sign(rt.NewDRBG(seed), sk, digest)
		if err != nil || !patecdsa.Verify(&pk.PublicKey, digest, sr, ss) {
			rt.Fail(t, "C13/std-sign-rejected", "crypto/ecdsa.Sign output rejected by the fork's Verify")
			return
		}
		sder, err := stdecdsa.SignASN1(rt.NewDRBG(seed), sk, digest)
		if err != nil || !patecdsa.VerifyASN1(&pk.PublicKey, digest, sder) {
			rt.Fail(t, "C13/std-signasn1-rejected", "crypto/ecdsa.SignASN1 output rejected by the fork's VerifyASN1: %x", sder)
			return
		}
		// generated keys are valid keys for crypto/ecdsa
		gk, err := patecdsa.GenerateKey(c, rt.NewDRBG(seed))
		if err != nil || !c.IsOnCurve(gk.X, gk.Y) || !inRange(gk.D) {
			rt.Fail(t, "C13/generatekey", "GenerateKey output invalid (%v)", err)
			return
		}
		gx, gy := c.ScalarBaseMult(gk.D.Bytes())
		if gx.Cmp(gk.X) != 0 || gy.Cmp(gk.Y) != 0 {
			rt.Fail(t, "C13/generatekey", "GenerateKey public key is not [D]G")
			return
		}
		s.Sample(func() any {
			return map[string]any{"curve": c.Params().Name, "digest_len": len(digest), "der": rt.Hex(der)}
		})
	})
}

// ---------------------------------------------------------------- entropy faults

var errEntropy = errors.New("injected entropy failure")

// faultReader delivers `good` bytes in the given chunk pattern, then fails.
// It always makes progress or returns an error (io.Reader contract).
type faultReader struct {
	src      io.Reader
	good     int
	chunks   []int
	ci       int
	withData bool // deliver the last good bytes together with the error
	reads    int
}

func (f *faultReader) Read(p []byte) (int, error) {
	f.reads++
	if len(p) == 0 {
		return 0, nil
	}
	if f.good <= 0 {
		return 0, errEntropy
	}
	n := len(p)
	if len(f.chunks) > 0 {
		if c := f.chunks[f.ci%len(f.chunks)]; c < n {
			n = c
		}
		f.ci++
	}
	if n > f.good {
		n = f.good
	}
	io.ReadFull(f.src, p[:n])
	f.good -= n
	if f.good == 0 && f.withData {
		return n, errEntropy
	}
	return n, nil
}

func TestEntropyFaults(t *testing.T) {
	s := rt.S("entropy-faults").SetRule("fault enumeration: for GenerateKey, Sign, SignASN1, PrivateKey.Sign, BlindKeySign(WithContext) on each curve, an entropy reader that delivers exactly p bytes and then fails, for EVERY p from 0 to (bytes the operation needs)+1, under several short-read chunkings (1-byte reads, 7-byte reads, whole reads, error delivered together with the last bytes); oracle: p < need => non-nil error and nil key / nil r,s / nil signature; p >= need(+1 for the optional byte ecdsa.MaybeReadByte may consume) => success; in between either, but never an error together with a result. non-trivial = every (operation, curve, p, chunking) with p < need; distinct by construction")
	cs := curves
	if !rt.Thorough() {
		cs = []elliptic.Curve{elliptic.P256(), elliptic.P384()}
	}
	chunkings := [][]int{nil, {1}, {7}, {1, 2, 3}}
	var cnt, nt int64
	for _, c := range cs {
		d := new(big.Int).SetBytes(bytes.Repeat([]byte{0x5a}, 20))
		sk, _ := patecdsa.CreateKey(c, d.Bytes())
		bk, _ := patecdsa.CreateKey(c, []byte{1, 2, 3})
		digest := bytes.Repeat([]byte{9}, 32)
		type op struct {
			name string
			need int
			slop int // extra bytes that may or may not be consumed
			run  func(r io.Reader) (hasResult bool, err error)
		}
		ops := []op{
			{"GenerateKey", c.Params().BitSize/8 + 8, 0, func(r io.Reader) (bool, error) {
				k, err := patecdsa.GenerateKey(c, r)
				return k != nil, err
			}},
			{"Sign", 32, 1, func(r io.Reader) (bool, error) {
				a, b, err := patecdsa.Sign(r, sk, digest)
				return a != nil || b != nil, err
			}},
			{"SignASN1", 32, 1, func(r io.Reader) (bool, error) {
				sig, err := patecdsa.SignASN1(r, sk, digest)
				return sig != nil, err
			}},
			{"PrivateKey.Sign", 32, 1, func(r io.Reader) (bool, error) {
				sig, err := sk.Sign(r, digest, crypto.SHA256)
				return sig != nil, err
			}},
			{"BlindKeySign", 32, 1, func(r io.Reader) (bool, error) {
				a, b, err := patecdsa.BlindKeySign(r, sk, bk, digest)
				return a != nil || b != nil, err
			}},
			{"BlindKeySignWithContext", 32, 1, func(r io.Reader) (bool, error) {
				a, b, err := patecdsa.BlindKeySignWithContext(r, sk, bk, digest, []byte("ctx"))
				return a != nil || b != nil, err
			}},
		}
		for _, o := range ops {
			for p := 0; p <= o.need+o.slop+1; p++ {
				for ci, ch := range chunkings {
					for _, withData := range []bool{false, true} {
						fr := &faultReader{src: rt.NewDRBG([]byte{byte(p), byte(ci)}), good: p, chunks: ch, withData: withData}
						var has bool
						var err error
						if out := rt.GuardLite(func() { has, err = o.run(fr) }); out.Panic != nil {
							rt.Report(t, "C13/entropy/"+o.name+"/panic", "", nil, "%s panicked with an entropy reader failing after %d bytes: %v", o.name, p, out.Panic)
							continue
						}
						cnt++
						// with error-with-data at the very end the last bytes DO arrive: the reader delivered p bytes
						switch {
						case p < o.need:
							nt++
							if err == nil || has {
								rt.Report(t, "C13/entropy/"+o.name+"/no-error", "", nil, "%s on %s with an entropy reader that fails after %d of %d needed bytes (chunks %v, errWithData %v) returned err=%v result=%v", o.name, c.Params().Name, p, o.need, ch, withData, err, has)
							}
						case p >= o.need+o.slop:
							if err != nil || !has {
								rt.Report(t, "C13/entropy/"+o.name+"/spurious-error", "", nil, "%s on %s failed (%v) although the reader delivered %d >= %d bytes", o.name, c.Params().Name, err, p, o.need+o.slop)
							}
						default:
							if (err != nil) == has {
								rt.Report(t, "C13/entropy/"+o.name+"/inconsistent", "", nil, "%s returned err=%v together with result=%v", o.name, err, has)
							}
						}
					}
				}
			}
		}
	}
	s.EvalN(cnt)
	s.NontrivialEnum(nt)
	s.MarkExhaustive("every failure position 0..need+1 of the entropy reader for each signing/key-generation entry point, 4 chunkings x 2 error styles")
	s.Sample(func() any {
		return fmt.Sprintf("e.g. Sign on P-384 with a reader failing after 17 of 32 bytes, 7-byte reads")
	})
}

// TestWrapAroundSignatures: signatures whose nonce point has an x coordinate in [N, P), so that r = x - N is tiny
// (random signing meets this with probability ~2^-128). Built Wycheproof-style: pick R with R.x = N + i, any
// digest and s, and derive the public key Q = r^-1 (sR - eG) under which (r, s) is valid.
func TestWrapAroundSignatures(t *testing.T) {
	s := rt.S("wrap-around-r").SetRule("for each curve the first values i >= 1 such that x = N + i is the x coordinate of a curve point R (x < P); drawn digest and s; public key Q = r^-1(sR - eG) with r = i: (r, s) is a valid signature under Q whose verification needs the reduction of R.x modulo N; oracle: fork Verify/VerifyASN1 == crypto/ecdsa (which must say true). non-trivial = every case; distinct by (curve, i, digest, s)")
	type wrap struct {
		c    elliptic.Curve
		i    int64
		x, y *big.Int
	}
	var wraps []wrap
	for _, c := range curves {
		p, n, b := c.Params().P, c.Params().N, c.Params().B
		found := 0
		for i := int64(1); i < 4000 && found < 3; i++ {
			x := new(big.Int).Add(n, big.NewInt(i))
			if x.Cmp(p) >= 0 {
				break
			}
			// y^2 = x^3 - 3x + b
			y2 := new(big.Int).Exp(x, big.NewInt(3), p)
			y2.Sub(y2, new(big.Int).Mul(big.NewInt(3), x))
			y2.Add(y2, b)
			y2.Mod(y2, p)
			y := new(big.Int).ModSqrt(y2, p)
			if y == nil || !c.IsOnCurve(x, y) {
				continue
			}
			wraps = append(wraps, wrap{c, i, x, y})
			found++
		}
	}
	if len(wraps) == 0 {
		t.Fatal("harness: no wrap-around points found")
	}
	rt.Check(t, 200, 20000, func(t *rapid.T) {
		w := gen.Pick(t, wraps, "point")
		c, n := w.c, w.c.Params().N
		digest := gen.Digest(t, "digest")
		sv := new(big.Int).SetBytes(rapid.SliceOfN(rapid.Byte(), 70, 70).Draw(t, "s"))
		sv.Mod(sv, new(big.Int).Sub(n, big.NewInt(1)))
		sv.Add(sv, big.NewInt(1))
		r := big.NewInt(w.i)
		// e as the verifier derives it (leftmost bits of the digest)
		orderBits := n.BitLen()
		orderBytes := (orderBits + 7) / 8
		h := digest
		if len(h) > orderBytes {
			h = h[:orderBytes]
		}
		e := new(big.Int).SetBytes(h)
		if excess := len(h)*8 - orderBits; excess > 0 {
			e.Rsh(e, uint(excess))
		}
		// Q = r^-1 (s R - e G)
		rInv := new(big.Int).ModInverse(r, n)
		sx, sy := c.ScalarMult(w.x, w.y, sv.Bytes())
		negE := new(big.Int).Mod(new(big.Int).Neg(e), n)
		ex, ey := c.ScalarBaseMult(negE.Bytes())
		tx, ty := c.Add(sx, sy, ex, ey)
		if tx.Sign() == 0 && ty.Sign() == 0 {
			t.Skip("degenerate")
		}
		qx, qy := c.ScalarMult(tx, ty, rInv.Bytes())
		std := &stdecdsa.PublicKey{Curve: c, X: qx, Y: qy}
		s.Eval()
		s.Class(c.Params().Name)
		s.Nontrivial([]byte(c.Params().Name), []byte{byte(w.i)}, digest, sv.Bytes())
		want := stdecdsa.Verify(std, digest, r, sv)
		if !want {
			t.Fatalf("harness: the constructed wrap-around signature is not valid under crypto/ecdsa (curve %s i=%d)", c.Params().Name, w.i)
		}
		pub := &patecdsa.PublicKey{Curve: c, X: qx, Y: qy}
		if got := patecdsa.Verify(pub, digest, r, sv); got != want {
			rt.Fail(t, "C13/"+c.Params().Name+"/verify-verdict-wraparound", "fork Verify=%v, crypto/ecdsa.Verify=%v for a signature whose R.x lies in [N, P) (r = %d)", got, want, w.i)
			return
		}
		der := derSeq(derInt(r), derInt(sv))
		if got, want := patecdsa.VerifyASN1(pub, digest, der), stdecdsa.VerifyASN1(std, digest, der); got != want {
			rt.Fail(t, "C13/"+c.Params().Name+"/verifyasn1-verdict/wraparound", "fork VerifyASN1=%v, crypto/ecdsa=%v", got, want)
			return
		}
		s.Sample(func() any { return map[string]any{"curve": c.Params().Name, "r": w.i, "s": sv.String()} })
	})
}

// TestManySignaturesDER: scalars with leading zero BYTES (two or more) come up once in ~2^16 signatures; only volume finds
// an encoder that mishandles them. Every ASN.1 signature must parse under crypto/ecdsa and be the minimal DER of its (r, s).
func TestManySignaturesDER(t *testing.T) {
	s := rt.S("many-signatures-der").SetRule("SignASN1 / PrivateKey.Sign on P-224 and P-256 with one key per worker, a counter as digest and a DRBG per worker (8 workers per process): quick 600000, thorough 16000000 signatures (split over shards; P-224 gets a quarter of P-256's share); each output must equal the minimal DER encoding of the (r, s) it decodes to, and - all those with a short r or s, and every 8th of the others - verify under crypto/ecdsa.VerifyASN1 the minimal DER encoding of the (r, s) it decodes to. non-trivial = signature whose r or s has at least one leading zero byte; distinct by construction (distinct digests)")
	total := rt.N(600000, 16000000)
	const workers = 8
	var cnt, small int64
	var mu sync.Mutex
	var wg sync.WaitGroup
	report := func(sig, format string, args ...any) {
		mu.Lock()
		defer mu.Unlock()
		rt.Report(t, sig, "", nil, format, args...)
	}
	for w := 0; w < workers; w++ {
		wg.Add(1)
		go func(w int) {
			defer wg.Done()
			rnd := rt.NewDRBG([]byte(fmt.Sprintf("many signatures %d %d %d", rt.BaseSeed, rt.Shard, w)))
			var myCnt, mySmall int64
			for ci, c := range []elliptic.Curve{elliptic.P256(), elliptic.P224()} {
				// a valid key per (curve, shard, worker): 1 + (hash mod 2^190), never zero and below every curve order
				dh := sha256.Sum256([]byte(fmt.Sprintf("many signatures key %d %d %d", ci, rt.Shard, w)))
				d := new(big.Int).Add(new(big.Int).SetBytes(dh[:23]), big.NewInt(1))
				pk, _ := patecdsa.CreateKey(c, d.Bytes())
				x, y := c.ScalarBaseMult(d.Bytes())
				std := &stdecdsa.PublicKey{Curve: c, X: x, Y: y}
				size := (c.Params().N.BitLen() + 7) / 8
				n := total / 2 / workers
				if ci == 1 {
					n /= 4 // P-224 has no assembly: a quarter of the volume
				}
				for i := 0; i < n; i++ {
					digest := []byte(fmt.Sprintf("digest %d %d %d", rt.Shard, w, i))
					var der []byte
					var err error
					if i%2 == 0 {
						der, err = patecdsa.SignASN1(rnd, pk, digest)
					} else {
						der, err = pk.Sign(rnd, digest, crypto.SHA256)
					}
					myCnt++
					if err != nil {
						report("C13/many/sign-error", "SignASN1: %v", err)
						break
					}
					// minimal DER of what it decodes to
					var r, sv big.Int
					isSmall := false
					if rest := der; len(rest) > 8 {
						// cheap decode: SEQUENCE, two INTEGERs with short lengths
						rl := int(rest[3])
						r.SetBytes(rest[4 : 4+rl])
						sv.SetBytes(rest[6+rl:])
						if !bytes.Equal(derSeq(derInt(&r), derInt(&sv)), der) {
							report("C13/many/der-not-minimal", "signature %d on %s is not the minimal DER of its (r, s): %x", i, c.Params().Name, der)
							break
						}
						if len(r.Bytes()) <= size-1 || len(sv.Bytes()) <= size-1 {
							mySmall++
							isSmall = true
						}
					}
					// the fork's own verifier sees every third signature (a fault of its arithmetic that depends on the VALUES of
					// the intermediate scalars - e.g. two of them differing in length - is met by volume only)
					if i%3 == 0 && !patecdsa.VerifyASN1(&pk.PublicKey, digest, der) {
						report("C13/many/own-signature-rejected", "signature %d on %s made by this package is rejected by this package's VerifyASN1 (crypto/ecdsa: %v): %x", i, c.Params().Name, stdecdsa.VerifyASN1(std, digest, der), der)
						break
					}
					// the standard verifier sees every signature with a short r or s, every malformed-looking one, and every 8th of the rest
					if (isSmall || len(der) <= 8 || i%8 == 0) && !stdecdsa.VerifyASN1(std, digest, der) {
						report("C13/many/signasn1-rejected-by-std", "signature %d on %s is rejected by crypto/ecdsa.VerifyASN1: %x", i, c.Params().Name, der)
						break
					}
				}
			}
			mu.Lock()
			cnt += myCnt
			small += mySmall
			mu.Unlock()
		}(w)
	}
	wg.Wait()
	s.EvalN(cnt)
	s.NontrivialEnum(small)
	s.Sample(func() any { return map[string]any{"signatures": cnt, "with_leading_zero_byte": small} })
}

// TestVerifyAfterVerify: verdicts must not depend on what was verified before. A valid signature whose r (or s) has a
// leading zero byte is verified first; then pairs that are "the same bytes differently cut" follow - the boundary between
// r and s moved by one byte in either direction, r and s swapped, the same pair under a digest with a zero byte appended -
// each compared with crypto/ecdsa.
func TestVerifyAfterVerify(t *testing.T) {
	s := rt.S("verify-after-verify").SetRule("per case a key on one of four curves, a digest, and a valid signature with a short r or s found by re-signing; sequence: Verify(valid) [must agree with crypto/ecdsa: true], then Verify of (r[1:]||s[0], 00||s[1:]), (00||r[:n-1], r[n-1]||s[1:]) , (s, r), (r, s) under digest||00, all against crypto/ecdsa. non-trivial = every follow-up pair; distinct by (curve, key, digest, pair)")
	rt.Check(t, 40, 8000, func(t *rapid.T) {
		c := gen.Pick(t, curves, "curve")
		pk, sk := drawKey(t, c)
		digest := gen.Digest(t, "digest")
		size := (c.Params().N.BitLen() + 7) / 8
		entropy := rt.NewDRBG(gen.Seed().Draw(t, "entropy"))
		wantShortR := rapid.Bool().Draw(t, "shortR")
		var r, sv *big.Int
		for try := 0; try < 4000; try++ {
			hr, hs, err := stdecdsa.Sign(entropy, sk, digest)
			if err != nil {
				t.Fatalf("std sign: %v", err)
			}
			if (wantShortR && len(hr.Bytes()) < size) || (!wantShortR && len(hs.Bytes()) < size) {
				r, sv = hr, hs
				break
			}
		}
		if r == nil {
			t.Skip("no signature with a short component found")
		}
		if !patecdsa.Verify(&pk.PublicKey, digest, r, sv) {
			rt.Fail(t, "C13/verify-verdict", "valid signature with a short component rejected: r %x s %x", r, sv)
			return
		}
		rb, sb := r.FillBytes(make([]byte, size)), sv.FillBytes(make([]byte, size))
		cat := append(append([]byte{}, rb...), sb...)
		type pair struct {
			name string
			r, s *big.Int
			d    []byte
		}
		followUps := []pair{
			{"boundary-moved-left", new(big.Int).SetBytes(cat[1 : size+1]), new(big.Int).SetBytes(append([]byte{0}, cat[size+1:]...)), digest},
			{"boundary-moved-right", new(big.Int).SetBytes(append([]byte{0}, cat[:size-1]...)), new(big.Int).SetBytes(append([]byte{cat[size-1]}, cat[size+1:]...)), digest},
			{"swapped", sv, r, digest},
			{"digest-extended-by-zero", r, sv, append(append([]byte{}, digest...), 0)},
			{"digest-prefixed-by-zero", r, sv, append([]byte{0}, digest...)},
		}
		for _, p := range followUps {
			s.Eval()
			s.Class(p.name)
			s.Nontrivial([]byte(c.Params().Name), pk.X.Bytes(), p.d, p.r.Bytes(), []byte{0}, p.s.Bytes())
			want := stdecdsa.Verify(&sk.PublicKey, p.d, p.r, p.s)
			if got := patecdsa.Verify(&pk.PublicKey, p.d, p.r, p.s); got != want {
				rt.Fail(t, "C13/verify-after-verify/"+p.name, "after verifying the valid pair (r %x, s %x), the pair (r %x, s %x) over digest %x gets verdict %v; crypto/ecdsa says %v (%s)", r, sv, p.r, p.s, p.d, got, want, c.Params().Name)
				return
			}
		}
		s.Sample(func() any {
			return map[string]any{"curve": c.Params().Name, "r": fmt.Sprintf("%x", r), "s": fmt.Sprintf("%x", sv)}
		})
	})
}

// TestChosenNonceForgeries: signatures built by the key holder with a CHOSEN nonce k, so that r = (kG).x mod N has
// leading zero bytes, and then with r replaced by values that agree with it in the low bytes only: r' = r + t*2^(8j).
// (s is computed for r', so the verifier recomputes exactly kG; a comparison that looks at fewer bytes than r has
// accepts.) Every pair is compared with crypto/ecdsa, through Verify and through VerifyASN1.
func TestChosenNonceForgeries(t *testing.T) {
	s := rt.S("chosen-nonce-forgeries").SetRule("per case a key on one of four curves and a digest; nonce k searched (<= 4000 tries) until (kG).x mod N is at least one byte short; pairs (r', k^-1(e + r'd)) for r' = r (valid) and r' = r + t*2^(8j), j in {size-1, size-2, size/2, 1}, t in {1, 0x7f, 0xff} (skipped when >= N); oracle: fork Verify and VerifyASN1 == crypto/ecdsa. non-trivial = every r' != r; distinct by (curve, key, digest, r')")
	rt.Check(t, 30, 6000, func(t *rapid.T) {
		c := gen.Pick(t, curves, "curve")
		pk, sk := drawKey(t, c)
		n := c.Params().N
		size := (n.BitLen() + 7) / 8
		digest := gen.Digest(t, "digest")
		// e as crypto/ecdsa derives it (leftmost bits of the digest)
		e := new(big.Int).SetBytes(digest)
		if len(digest) > size {
			e.SetBytes(digest[:size])
		}
		if excess := len(digest)*8 - n.BitLen(); len(digest) <= size && excess > 0 {
			e.Rsh(e, uint(excess))
		} else if len(digest) > size {
			if ex := size*8 - n.BitLen(); ex > 0 {
				e.Rsh(e, uint(ex))
			}
		}
		stream := rt.NewDRBG(gen.Seed().Draw(t, "nonces"))
		var k, r *big.Int
		for try := 0; try < 4000; try++ {
			kb := make([]byte, size+8)
			if _, err := io.ReadFull(stream, kb); err != nil {
				t.Fatalf("harness: %v", err)
			}
			kk := new(big.Int).SetBytes(kb)
			kk.Mod(kk, new(big.Int).Sub(n, big.NewInt(1))).Add(kk, big.NewInt(1))
			x, _ := c.ScalarBaseMult(kk.Bytes())
			x.Mod(x, n)
			if x.Sign() != 0 && len(x.Bytes()) < size {
				k, r = kk, x
				break
			}
		}
		if k == nil {
			t.Skip("no nonce with a short r found")
		}
		kinv := new(big.Int).ModInverse(k, n)
		sign := func(rp *big.Int) *big.Int {
			sv := new(big.Int).Mul(rp, sk.D)
			sv.Add(sv, e).Mul(sv, kinv).Mod(sv, n)
			return sv
		}
		if !stdecdsa.Verify(&sk.PublicKey, digest, r, sign(r)) {
			t.Fatalf("harness: the signature built with the chosen nonce is not valid for crypto/ecdsa (curve %s, digest %d bytes)", c.Params().Name, len(digest))
		}
		cands := []*big.Int{r}
		for _, j := range []int{size - 1, size - 2, size / 2, 1} {
			for _, tv := range []int64{1, 0x7f, 0xff} {
				rp := new(big.Int).Add(r, new(big.Int).Lsh(big.NewInt(tv), uint(8*j)))
				if rp.Cmp(n) < 0 {
					cands = append(cands, rp)
				}
			}
		}
		for _, rp := range cands {
			sv := sign(rp)
			if sv.Sign() == 0 {
				continue
			}
			s.Eval()
			if rp.Cmp(r) != 0 {
				s.Nontrivial([]byte(c.Params().Name), pk.X.Bytes(), digest, rp.Bytes())
			}
			want := stdecdsa.Verify(&sk.PublicKey, digest, rp, sv)
			if got := patecdsa.Verify(&pk.PublicKey, digest, rp, sv); got != want {
				rt.Fail(t, "C13/chosen-nonce/verify-verdict", "%s: (r', s) with r' = %x (the true r is %x, %d bytes) and s computed for r': fork %v, crypto/ecdsa %v", c.Params().Name, rp, r, len(r.Bytes()), got, want)
				return
			}
			der := derSeq(derInt(rp), derInt(sv))
			if got, w := patecdsa.VerifyASN1(&pk.PublicKey, digest, der), stdecdsa.VerifyASN1(&sk.PublicKey, digest, der); got != w {
				rt.Fail(t, "C13/chosen-nonce/verifyasn1-verdict", "%s: DER of (r' = %x, s): fork %v, crypto/ecdsa %v", c.Params().Name, rp, got, w)
				return
			}
		}
		s.Class(c.Params().Name)
		s.Sample(func() any {
			return map[string]any{"curve": c.Params().Name, "r": fmt.Sprintf("%x", r), "candidates": len(cands)}
		})
	})
}
