// C16 — operations have no hidden side effects on caller-visible memory.
package c16

import (
	"bytes"
	"crypto/elliptic"
	"crypto/rand"
	"fmt"
	"math/big"
	"testing"

	"github.com/cloudflare/circl/oprf"
	patecdsa "github.com/cloudflare/pat-go/ecdsa"
	pated "github.com/cloudflare/pat-go/ed25519"
	"github.com/cloudflare/pat-go/quicwire"
	"github.com/cloudflare/pat-go/tokens"
	"github.com/cloudflare/pat-go/tokens/batched"
	"github.com/cloudflare/pat-go/tokens/type1"
	"github.com/cloudflare/pat-go/tokens/type2"
	"github.com/cloudflare/pat-go/tokens/type3"
	"github.com/cloudflare/pat-go/tokens/type5"
	"github.com/cloudflare/pat-go/util"
	"pgregory.net/rapid"

	"verifharness/internal/gen"
	"verifharness/internal/ref"
	"verifharness/internal/rt"
)

func TestMain(m *testing.M) { rt.Main(m) }

// ---------------------------------------------------------------- guarded argument buffers

type guarded struct {
	name     string
	buf      []byte // guard(16) || arg || spare
	snapshot []byte
	lo, hi   int
}

type placer struct {
	t     *rapid.T
	args  []*guarded
	spare bool
}

// put places data in a buffer guard(16 noise bytes) || data || spare(0..64 noise bytes) and
// returns buf[16:16+len] with a capacity reaching into (part of) the spare region.
func (p *placer) put(name string, data []byte) []byte {
	if data == nil {
		return nil
	}
	spare := 0
	if rapid.IntRange(0, 3).Draw(p.t, name+"/hasSpare") != 0 {
		spare = gen.UniformRange(p.t, 1, 64, name+"/spare")
		p.spare = true
	}
	noise := rapid.SliceOfN(rapid.Byte(), 16+spare, 16+spare).Draw(p.t, name+"/noise")
	buf := make([]byte, 0, 16+len(data)+spare)
	buf = append(buf, noise[:16]...)
	buf = append(buf, data...)
	buf = append(buf, noise[16:]...)
	capEnd := 16 + len(data)
	if spare > 0 {
		capEnd += gen.UniformRange(p.t, 1, spare, name+"/cap")
	}
	g := &guarded{name: name, buf: buf, snapshot: append([]byte{}, buf...), lo: 16, hi: 16 + len(data)}
	p.args = append(p.args, g)
	return buf[16 : 16+len(data) : capEnd]
}

func (p *placer) check() error {
	for _, g := range p.args {
		if !bytes.Equal(g.buf, g.snapshot) {
			for i := range g.buf {
				if g.buf[i] != g.snapshot[i] {
					region := "spare capacity behind the argument"
					if i < g.lo {
						region = "memory in front of the argument"
					} else if i < g.hi {
						region = "the argument itself"
					}
					return fmt.Errorf("argument %q: byte %d (%s) changed from %02x to %02x; buffer before %x after %x", g.name, i-g.lo, region, g.snapshot[i], g.buf[i], g.snapshot, g.buf)
				}
			}
		}
	}
	return nil
}

// ---------------------------------------------------------------- the operation table

// An op draws its inputs, places every byte-slice argument through p.put and
// returns a deterministic digest of its result ("" if the result is randomised), and
// whether the result is valid where validity can be checked.
type op struct {
	name string
	// prepare draws the logical inputs once; run executes with placed arguments.
	prepare func(t *rapid.T) any
	run     func(in any, p *placer) (result []byte, err error)
	random  bool // result legitimately differs between runs
}

type fixtures struct {
	k1, k5    *oprf.PrivateKey
	iss1      *type1.BasicPrivateIssuer
	iss2      *type2.BasicPublicIssuer
	iss5      *type5.BatchedPrivateIssuer
	iss3      *type3.RateLimitedIssuer
	ecKey     *patecdsa.PrivateKey
	ecBlind   *patecdsa.PrivateKey
	valid     map[string][]byte // valid encodings for decoders
	st1       type1.BasicPrivateTokenRequestState
	st2       type2.BasicPublicTokenRequestState
	st3       type3.RateLimitedTokenRequestState
	st5       type5.BatchedPrivateTokenRequestState
	resp      map[uint16][]byte
	blind3    []byte
	blindedRK []byte
}

var fx *fixtures

func theFixtures() *fixtures {
	if fx != nil {
		return fx
	}
	defer rt.Entropy([]byte("c16 fixtures"))()
	f := &fixtures{valid: map[string][]byte{}, resp: map[uint16][]byte{}}
	f.k1 = gen.OPRFKey(oprf.SuiteP384, []byte("c16 k1"))
	f.k5 = gen.OPRFKey(oprf.SuiteRistretto255, []byte("c16 k5"))
	f.iss1, f.iss5 = type1.NewBasicPrivateIssuer(f.k1), type5.NewBatchedPrivateIssuer(f.k5)
	f.iss2 = type2.NewBasicPublicIssuer(gen.RSAPool()[0])
	f.iss3 = type3.NewRateLimitedIssuer(gen.RSAPool()[1])
	_ = f.iss3.AddOrigin("origin.example")
	f.ecKey, _ = patecdsa.CreateKey(elliptic.P384(), bytes.Repeat([]byte{0x21}, 40))
	f.ecBlind, _ = patecdsa.CreateKey(elliptic.P384(), bytes.Repeat([]byte{0x22}, 40))
	chal, nonce := []byte("challenge"), bytes.Repeat([]byte{3}, 32)
	var err error
	must := func(e error) {
		if e != nil {
			panic(e)
		}
	}
	f.st1, err = type1.NewBasicPrivateClient().CreateTokenRequest(chal, nonce, f.iss1.TokenKeyID(), f.iss1.TokenKey())
	must(err)
	f.resp[1], err = f.iss1.Evaluate(f.st1.Request())
	must(err)
	f.st2, err = type2.NewBasicPublicClient().CreateTokenRequest(chal, nonce, f.iss2.TokenKeyID(), f.iss2.TokenKey())
	must(err)
	f.resp[2], err = f.iss2.Evaluate(f.st2.Request())
	must(err)
	f.st5, err = type5.NewBatchedPrivateClient().CreateTokenRequest(chal, [][]byte{nonce, nonce}, f.iss5.TokenKeyID(), f.iss5.TokenKey())
	must(err)
	f.resp[5], err = f.iss5.Evaluate(f.st5.Request())
	must(err)
	f.blind3 = bytes.Repeat([]byte{0x44}, 40)
	f.st3, err = type3.NewRateLimitedClientFromSecret(bytes.Repeat([]byte{0x33}, 40)).CreateTokenRequest(chal, nonce, f.blind3, f.iss3.TokenKeyID(), f.iss3.TokenKey(), "origin.example", f.iss3.NameKey())
	must(err)
	f.resp[3], f.blindedRK, err = f.iss3.Evaluate(f.st3.Request().Marshal())
	must(err)
	t1, _ := f.st1.FinalizeToken(f.resp[1])
	f.valid["token1"] = t1.Marshal()
	f.valid["req1"] = append([]byte{}, f.st1.Request().Marshal()...)
	f.valid["req2"] = append([]byte{}, f.st2.Request().Marshal()...)
	f.valid["req3"] = append([]byte{}, f.st3.Request().Marshal()...)
	f.valid["req5"] = append([]byte{}, f.st5.Request().Marshal()...)
	f.valid["challenge"] = tokens.TokenChallenge{TokenType: 2, IssuerName: "issuer.example", RedemptionNonce: nonce, OriginInfo: []string{"a", "b"}}.Marshal()
	f.valid["encap"] = f.iss3.NameKey().Marshal()
	f.valid["inner"] = ref.EncodeInnerRequest(1, make([]byte, 256), make([]byte, 32))
	f.valid["spki"], _ = util.MarshalTokenKeyPSSOID(&gen.RSAPool()[0].PublicKey)
	// the same key in another legal encoding: the BIT STRING announces 2 unused bits and carries the RSAPublicKey bytes
	// shifted left by 2 (a decoder right-aligns it - in its own memory)
	if spki := f.valid["spki"]; len(spki) > 300 {
		for i := 4; i+5 < len(spki); i++ {
			if spki[i] == 0x03 && spki[i+1] == 0x82 && spki[i+4] == 0x00 && spki[i+5] == 0x30 && int(spki[i+2])<<8|int(spki[i+3]) == len(spki)-i-4 {
				sh := append([]byte{}, spki...)
				sh[i+4] = 2
				body := sh[i+5:]
				for j := 0; j < len(body); j++ {
					v := body[j] << 2
					if j+1 < len(body) {
						v |= body[j+1] >> 6
					}
					body[j] = v
				}
				f.valid["spki-shifted"] = sh
				break
			}
		}
	}
	br, _ := batched.NewBasicClient().CreateTokenRequest([]tokens.TokenRequestWithDetails{f.st1.Request(), f.st2.Request()})
	f.valid["batchreq"] = append([]byte{}, br.Marshal()...)
	f.valid["batchresp"], _ = batched.NewBasicBatchedIssuer(gen.Batch1{I: f.iss1}, gen.Batch2{I: f.iss2}).EvaluateBatch(br)
	fx = f
	return f
}

type ed struct{ seed, blind, ctx, msg []byte }

func drawEd(t *rapid.T) any {
	return ed{gen.Bytes32().Draw(t, "seed"), gen.Bytes32().Draw(t, "blind"), gen.Bytes(t, 0, 40, "ctx"), gen.Bytes(t, 0, 80, "msg")}
}

type bytesIn struct {
	name string
	data []byte
}

func decoderOp(name, valid string, dec func([]byte) []byte) op {
	return op{name: "decode/" + name,
		prepare: func(t *rapid.T) any {
			b := theFixtures().valid[valid]
			switch gen.Uniform(t, 7, "mutate") {
			case 0:
				b, _ = gen.Mutate(t, b, nil, []int{0, 1, 2, 3})
			case 1:
				// a few bytes short: a decoder that trusts an announced length reads them from whatever lies behind the argument
				b = b[:len(b)-gen.UniformRange(t, 1, 4, "tailcut")]
			case 2, 3:
				// same framing, other VALUES: a span of the valid message is replaced by random bytes, or gets all its top bits /
				// all its bits set (values a decoder may want to "normalise" - which it must not do in the caller's buffer)
				b = append([]byte{}, b...)
				lo := gen.Uniform(t, len(b), "spanLo")
				hi := lo + 1 + gen.Uniform(t, len(b)-lo, "spanLen")
				fill := gen.Uniform(t, 3, "spanFill")
				rnd := gen.Bytes(t, hi-lo, hi-lo, "spanBytes")
				for i := lo; i < hi; i++ {
					switch fill {
					case 0:
						b[i] = rnd[i-lo]
					case 1:
						b[i] |= 0x80
					case 2:
						b[i] = 0xff
					}
				}
			}
			return bytesIn{name, b}
		},
		run: func(in any, p *placer) ([]byte, error) {
			var out []byte
			o := rt.GuardLite(func() { out = dec(p.put("input", in.(bytesIn).data)) })
			if o.Panic != nil {
				return []byte("panic"), nil // C03's business; the buffers are still checked
			}
			return out, nil
		}}
}

func yes(b bool) []byte {
	if b {
		return []byte{1}
	}
	return []byte{0}
}

func ops() []op {
	f := theFixtures()
	list := []op{
		{name: "ed25519.BlindPublicKeyWithContext", prepare: drawEd, run: func(in any, p *placer) ([]byte, error) {
			e := in.(ed)
			pub := pated.NewKeyFromSeed(e.seed).Public().(pated.PublicKey)
			return pated.BlindPublicKeyWithContext(pated.PublicKey(p.put("publicKey", pub)), p.put("blind", e.blind), p.put("context", e.ctx))
		}},
		{name: "ed25519.BlindPublicKey", prepare: drawEd, run: func(in any, p *placer) ([]byte, error) {
			e := in.(ed)
			pub := pated.NewKeyFromSeed(e.seed).Public().(pated.PublicKey)
			return pated.BlindPublicKey(pated.PublicKey(p.put("publicKey", pub)), p.put("blind", e.blind))
		}},
		{name: "ed25519.UnblindPublicKeyWithContext", prepare: drawEd, run: func(in any, p *placer) ([]byte, error) {
			e := in.(ed)
			pub := pated.NewKeyFromSeed(e.seed).Public().(pated.PublicKey)
			return pated.UnblindPublicKeyWithContext(pated.PublicKey(p.put("publicKey", pub)), p.put("blind", e.blind), p.put("context", e.ctx))
		}},
		{name: "ed25519.BlindKeySignWithContext", prepare: drawEd, run: func(in any, p *placer) ([]byte, error) {
			e := in.(ed)
			return pated.BlindKeySignWithContext(pated.PrivateKey(p.put("privateKey", pated.NewKeyFromSeed(e.seed))), p.put("message", e.msg), p.put("blind", e.blind), p.put("context", e.ctx)), nil
		}},
		{name: "ed25519.BlindKeySign", prepare: drawEd, run: func(in any, p *placer) ([]byte, error) {
			e := in.(ed)
			return pated.BlindKeySign(pated.PrivateKey(p.put("privateKey", pated.NewKeyFromSeed(e.seed))), p.put("message", e.msg), p.put("blind", e.blind)), nil
		}},
		{name: "ed25519.Sign+Verify+NewKeyFromSeed", prepare: drawEd, run: func(in any, p *placer) ([]byte, error) {
			e := in.(ed)
			priv := pated.NewKeyFromSeed(p.put("seed", e.seed))
			sig := pated.Sign(pated.PrivateKey(p.put("privateKey", priv)), p.put("message", e.msg))
			ok := pated.Verify(pated.PublicKey(p.put("publicKey", priv.Public().(pated.PublicKey))), p.put("message2", e.msg), p.put("sig", sig))
			return append(sig, yes(ok)...), nil
		}},
		{name: "ecdsa.CreateKey+BlindPublicKeyWithContext", prepare: drawEd, run: func(in any, p *placer) ([]byte, error) {
			e := in.(ed)
			k, err := patecdsa.CreateKey(elliptic.P384(), p.put("privateKeyBytes", e.seed))
			if err != nil {
				return nil, err
			}
			bk, _ := patecdsa.CreateKey(elliptic.P384(), p.put("blindKeyBytes", e.blind))
			bp, err := patecdsa.BlindPublicKeyWithContext(elliptic.P384(), &k.PublicKey, bk, p.put("context", e.ctx))
			if err != nil {
				return nil, err
			}
			up, err := patecdsa.UnblindPublicKeyWithContext(elliptic.P384(), bp, bk, p.put("context2", e.ctx))
			if err != nil {
				return nil, err
			}
			return append(elliptic.MarshalCompressed(elliptic.P384(), bp.X, bp.Y), elliptic.MarshalCompressed(elliptic.P384(), up.X, up.Y)...), nil
		}},
		{name: "ecdsa.Sign+Verify+VerifyASN1", random: true, prepare: drawEd, run: func(in any, p *placer) ([]byte, error) {
			e := in.(ed)
			r, s, err := patecdsa.Sign(rand.Reader, f.ecKey, p.put("hash", e.msg))
			if err != nil {
				return nil, err
			}
			der, err := patecdsa.SignASN1(rand.Reader, f.ecKey, p.put("hash2", e.msg))
			if err != nil {
				return nil, err
			}
			r0, s0 := new(big.Int).Set(r), new(big.Int).Set(s)
			ok := patecdsa.Verify(&f.ecKey.PublicKey, p.put("hash3", e.msg), r, s) && patecdsa.VerifyASN1(&f.ecKey.PublicKey, p.put("hash4", e.msg), p.put("sig", der))
			if !ok {
				return nil, fmt.Errorf("signature does not verify")
			}
			if r.Cmp(r0) != 0 || s.Cmp(s0) != 0 {
				return nil, fmt.Errorf("Verify wrote to its (r, s) arguments: r %x -> %x, s %x -> %x", r0, r, s0, s)
			}
			if !patecdsa.Verify(&f.ecKey.PublicKey, e.msg, r, s) {
				return nil, fmt.Errorf("the same signature object does not verify a second time")
			}
			// a key given in an encoding longer than the group order (value >= N): signing READS the caller's key object
			big1, err := patecdsa.CreateKey(elliptic.P384(), append(bytes.Repeat([]byte{0xf1}, 18), e.seed...))
			if err != nil {
				return nil, err
			}
			d0, x0, y0 := new(big.Int).Set(big1.D), new(big.Int).Set(big1.X), new(big.Int).Set(big1.Y)
			if _, _, err := patecdsa.Sign(rand.Reader, big1, e.msg); err != nil {
				return nil, err
			}
			if _, _, err := patecdsa.BlindKeySignWithContext(rand.Reader, big1, f.ecBlind, e.msg, e.ctx); err != nil {
				return nil, err
			}
			if big1.D.Cmp(d0) != 0 || big1.X.Cmp(x0) != 0 || big1.Y.Cmp(y0) != 0 {
				return nil, fmt.Errorf("signing wrote to the caller's private key object: D %x -> %x", d0, big1.D)
			}
			return nil, nil
		}},
		{name: "ecdsa.BlindKeySignWithContext", random: true, prepare: drawEd, run: func(in any, p *placer) ([]byte, error) {
			e := in.(ed)
			r, s, err := patecdsa.BlindKeySignWithContext(rand.Reader, f.ecKey, f.ecBlind, p.put("hash", e.msg), p.put("context", e.ctx))
			if err != nil {
				return nil, err
			}
			bp, _ := patecdsa.BlindPublicKeyWithContext(elliptic.P384(), &f.ecKey.PublicKey, f.ecBlind, e.ctx)
			if !patecdsa.Verify(bp, e.msg, r, s) {
				return nil, fmt.Errorf("blind signature does not verify")
			}
			return nil, nil
		}},
		decoderOp("TokenChallenge", "challenge", func(b []byte) []byte {
			c, err := tokens.UnmarshalTokenChallenge(b)
			if err != nil {
				return nil
			}
			return c.Marshal()
		}),
		decoderOp("Token/type1", "token1", func(b []byte) []byte {
			tk, err := type1.UnmarshalPrivateToken(b)
			if err != nil {
				return nil
			}
			return append(tk.Marshal(), yes(f.iss1.Verify(tk) == nil)...)
		}),
		decoderOp("TokenRequest/type1+Evaluate", "req1", func(b []byte) []byte {
			r := new(type1.BasicPrivateTokenRequest)
			if !r.Unmarshal(b) {
				return nil
			}
			resp, _ := f.iss1.Evaluate(r)
			if len(resp) > 49 {
				resp = resp[:49]
			}
			return append(append([]byte{}, r.Marshal()...), resp...)
		}),
		decoderOp("TokenRequest/type2+Evaluate", "req2", func(b []byte) []byte {
			r := new(type2.BasicPublicTokenRequest)
			if !r.Unmarshal(b) {
				return nil
			}
			resp, _ := f.iss2.Evaluate(r)
			return append(append([]byte{}, r.Marshal()...), resp...)
		}),
		decoderOp("TokenRequest/type5+Evaluate", "req5", func(b []byte) []byte {
			r := new(type5.BatchedPrivateTokenRequest)
			if !r.Unmarshal(b) {
				return nil
			}
			resp, _ := f.iss5.Evaluate(r)
			if len(resp) > 64 {
				resp = resp[:len(resp)-64]
			}
			return append(append([]byte{}, r.Marshal()...), resp...)
		}),
		decoderOp("TokenRequest/type3", "req3", func(b []byte) []byte {
			r := new(type3.RateLimitedTokenRequest)
			if !r.Unmarshal(b) {
				return nil
			}
			return r.Marshal()
		}),
		decoderOp("type3.Issuer.Evaluate", "req3", func(b []byte) []byte {
			_, key, _ := f.iss3.Evaluate(b)
			return key
		}),
		decoderOp("InnerTokenRequest", "inner", func(b []byte) []byte {
			r := new(type3.InnerTokenRequest)
			if !r.Unmarshal(b) {
				return nil
			}
			return r.Marshal()
		}),
		decoderOp("EncapKey", "encap", func(b []byte) []byte {
			k, err := type3.UnmarshalEncapKey(b)
			if err != nil {
				return nil
			}
			return k.Marshal()
		}),
		decoderOp("BatchTokenRequest", "batchreq", func(b []byte) []byte {
			r := new(batched.BatchedTokenRequest)
			if !r.Unmarshal(b) {
				return nil
			}
			return r.Marshal()
		}),
		decoderOp("BatchTokenResponse", "batchresp", func(b []byte) []byte {
			l, err := batched.UnmarshalBatchedTokenResponses(b)
			if err != nil {
				return nil
			}
			return bytes.Join(l, []byte{0xfe})
		}),
		decoderOp("TokenKey/bit-string-with-unused-bits", "spki-shifted", func(b []byte) []byte {
			k, err := util.UnmarshalTokenKey(b)
			if err != nil {
				return nil
			}
			return k.N.Bytes()
		}),
		decoderOp("TokenKey", "spki", func(b []byte) []byte {
			k, err := util.UnmarshalTokenKey(b)
			if err != nil {
				return nil
			}
			return k.N.Bytes()
		}),
		decoderOp("quicwire", "batchresp", func(b []byte) []byte {
			v, _ := quicwire.ConsumeVarintBytes(b)
			w, _ := quicwire.ConsumeUint8Bytes(b)
			return append(append([]byte{}, v...), w...)
		}),
		{name: "quicwire.Append*", prepare: func(t *rapid.T) any {
			return [][]byte{gen.Bytes(t, 0, 10, "prefix"), gen.Bytes(t, 0, 40, "payload"), {byte(gen.Uniform(t, 4, "class"))}}
		}, run: func(in any, p *placer) ([]byte, error) {
			a := in.([][]byte)
			v := []uint64{37, 15293, 494878333, 151288809941952652}[a[2][0]]
			var out []byte
			for _, f := range []func(dst []byte) []byte{
				func(dst []byte) []byte { return quicwire.AppendVarint(dst, v) },
				func(dst []byte) []byte { return quicwire.AppendVarintBytes(dst, a[1]) },
				func(dst []byte) []byte { return quicwire.AppendUint8Bytes(dst, a[1]) },
			} {
				dst := p.put("dst", a[0])
				g := p.args[len(p.args)-1]
				res := f(dst)
				out = append(out, res...)
				// the appended bytes are what the destination's capacity was given for; everything else - the bytes in front,
				// the prefix, and the capacity BEHIND the appended encoding - stays the caller's
				inPlace := cap(dst) > 0 && len(res) > 0 && len(res) <= cap(dst) && &res[:1][0] == &dst[:1][0]
				if inPlace {
					copy(g.snapshot[g.lo+len(dst):g.lo+len(res)], g.buf[g.lo+len(dst):g.lo+len(res)])
				} else {
					// the result moved to new storage: a multi-step append may have used any part of the capacity it was given before it grew
					copy(g.snapshot[g.lo+len(dst):g.lo+cap(dst)], g.buf[g.lo+len(dst):g.lo+cap(dst)])
				}
			}
			return out, nil
		}},
		{name: "type1.CreateTokenRequestWithBlind+Finalize", prepare: func(t *rapid.T) any {
			return [][]byte{gen.Challenge().Draw(t, "challenge"), gen.Bytes32().Draw(t, "nonce"), gen.P384Scalar().Draw(t, "blind")}
		}, run: func(in any, p *placer) ([]byte, error) {
			a := in.([][]byte)
			st, err := type1.NewBasicPrivateClient().CreateTokenRequestWithBlind(p.put("challenge", a[0]), p.put("nonce", a[1]), p.put("tokenKeyID", f.iss1.TokenKeyID()), f.iss1.TokenKey(), p.put("blind", a[2]))
			if err != nil {
				return nil, err
			}
			resp, err := f.iss1.Evaluate(st.Request())
			if err != nil {
				return nil, err
			}
			tok, err := st.FinalizeToken(p.put("response", resp))
			if err != nil {
				return nil, err
			}
			return append(append([]byte{}, st.Request().Marshal()...), tok.Marshal()...), nil
		}},
		{name: "type2.CreateTokenRequestWithBlind+Finalize", prepare: func(t *rapid.T) any {
			return [][]byte{gen.Challenge().Draw(t, "challenge"), gen.Bytes32().Draw(t, "nonce"), gen.RSABlind(t, gen.RSAPool()[0].N), rapid.SliceOfN(rapid.Byte(), 48, 48).Draw(t, "salt")}
		}, run: func(in any, p *placer) ([]byte, error) {
			a := in.([][]byte)
			st, err := type2.NewBasicPublicClient().CreateTokenRequestWithBlind(p.put("challenge", a[0]), p.put("nonce", a[1]), p.put("tokenKeyID", f.iss2.TokenKeyID()), f.iss2.TokenKey(), p.put("blind", a[2]), p.put("salt", a[3]))
			if err != nil {
				return nil, err
			}
			resp, err := f.iss2.Evaluate(st.Request())
			if err != nil {
				return nil, err
			}
			tok, err := st.FinalizeToken(p.put("response", resp))
			if err != nil {
				return nil, err
			}
			return append(append([]byte{}, st.Request().Marshal()...), tok.Marshal()...), nil
		}},
		{name: "type5.CreateTokenRequestWithBlinds+Finalize", prepare: func(t *rapid.T) any {
			n := rapid.IntRange(1, 4).Draw(t, "n")
			out := [][]byte{gen.Challenge().Draw(t, "challenge")}
			for i := 0; i < n; i++ {
				out = append(out, gen.Bytes32().Draw(t, "nonce"), gen.RistrettoScalar().Draw(t, "blind"))
			}
			return out
		}, run: func(in any, p *placer) ([]byte, error) {
			a := in.([][]byte)
			var nonces, blinds [][]byte
			for i := 1; i < len(a); i += 2 {
				nonces = append(nonces, p.put(fmt.Sprintf("nonce%d", i/2), a[i]))
				blinds = append(blinds, p.put(fmt.Sprintf("blind%d", i/2), a[i+1]))
			}
			st, err := type5.NewBatchedPrivateClient().CreateTokenRequestWithBlinds(p.put("challenge", a[0]), nonces, p.put("tokenKeyID", f.iss5.TokenKeyID()), f.iss5.TokenKey(), blinds)
			if err != nil {
				return nil, err
			}
			resp, err := f.iss5.Evaluate(st.Request())
			if err != nil {
				return nil, err
			}
			toks, err := st.FinalizeTokens(p.put("response", resp))
			if err != nil {
				return nil, err
			}
			out := append([]byte{}, st.Request().Marshal()...)
			for _, tk := range toks {
				out = append(out, tk.Marshal()...)
			}
			return out, nil
		}},
		{name: "type3.CreateTokenRequest+attester+Finalize", random: true, prepare: func(t *rapid.T) any {
			return [][]byte{gen.Challenge().Draw(t, "challenge"), gen.Bytes32().Draw(t, "nonce"), gen.P384KeyBytes().Draw(t, "blind"), gen.P384KeyBytes().Draw(t, "secret"), gen.Bytes32().Draw(t, "anon")}
		}, run: func(in any, p *placer) ([]byte, error) {
			a := in.([][]byte)
			client := type3.NewRateLimitedClientFromSecret(p.put("secret", a[3]))
			st, err := client.CreateTokenRequest(p.put("challenge", a[0]), p.put("nonce", a[1]), p.put("blindKeyEnc", a[2]), p.put("tokenKeyID", f.iss3.TokenKeyID()), f.iss3.TokenKey(), "origin.example", f.iss3.NameKey())
			if err != nil {
				return nil, err
			}
			att := type3.NewRateLimitedAttester(&memCache{m: map[string]*type3.ClientState{}})
			// in half the cases the request has been encoded BEFORE the attester sees the request object (a client that sends
			// first and attests second): the encoding handed out then is the caller's and must keep its value
			var encBefore, encBeforeCopy []byte
			if a[4][0]&1 == 1 {
				encBefore = st.Request().Marshal()
				encBeforeCopy = append([]byte{}, encBefore...)
			}
			if err := att.VerifyRequest(*st.Request(), p.put("blindKeyEnc2", a[2]), p.put("clientKeyEnc", st.ClientKey()), p.put("anonymousOrigin", a[4])); err != nil {
				return nil, err
			}
			if encBefore != nil && (!bytes.Equal(encBefore, encBeforeCopy) || !bytes.Equal(st.Request().Marshal(), encBeforeCopy)) {
				return nil, fmt.Errorf("VerifyRequest changed the request's encoding: the bytes returned by Request().Marshal() before the call were %x, the same slice now holds %x, Marshal() now returns %x", encBeforeCopy, encBefore, st.Request().Marshal())
			}
			resp, brk, err := f.iss3.Evaluate(p.put("encodedRequest", st.Request().Marshal()))
			if err != nil {
				return nil, err
			}
			idx, err := att.FinalizeIndex(p.put("clientKey", st.ClientKey()), p.put("blindEnc", a[2]), p.put("blindedRequestKeyEnc", brk), p.put("anonOriginId", a[4]))
			if err != nil {
				return nil, err
			}
			tok, err := st.FinalizeToken(p.put("response", resp))
			if err != nil {
				return nil, err
			}
			if gen.VerifyPSS(f.iss3.TokenKey(), tok.AuthenticatorInput(), tok.Authenticator) != nil {
				return nil, fmt.Errorf("token does not verify")
			}
			return idx, nil // the index is deterministic in (client, origin)
		}},
	}
	return list
}

type memCache struct{ m map[string]*type3.ClientState }

func (c *memCache) Get(id string) (*type3.ClientState, bool) { s, ok := c.m[id]; return s, ok }
func (c *memCache) Put(id string, s *type3.ClientState)      { c.m[id] = s }

func TestArgumentsUntouched(t *testing.T) {
	s := rt.S("arguments").SetRule("table of exported operations taking byte slices (Ed25519 blind/unblind/blind-sign/sign/verify/new-key, ECDSA create-key/blind/unblind/sign/verify/blind-sign, all decoders with valid and mutated input, the deterministic CreateTokenRequestWithBlind(s) + FinalizeToken(s) of types 1,2,5, the type-3 client + attester + issuer + FinalizeToken run); every byte argument sits in guard(16) || arg || spare(0..64) with a drawn capacity; oracle: the whole buffer (guard, argument, spare) is byte-identical after the call, and a second run with other guard/spare noise gives the same result (deterministic operations) or an equally valid one. non-trivial = call with at least one argument that has spare capacity; distinct by (operation, inputs)")
	table := ops()
	rt.Check(t, 1500, 300000, func(t *rapid.T) {
		o := gen.Pick(t, table, "op")
		in := o.prepare(t)
		s.Eval()
		s.Class(o.name)
		var results [][]byte
		anySpare := false
		for run := 0; run < 2; run++ {
			p := &placer{t: t}
			var res []byte
			var err error
			if out := rt.GuardLite(func() { res, err = o.run(in, p) }); out.Panic != nil {
				t.Fatalf("harness: operation %s panicked on well-formed input: %v\n%s", o.name, out.Panic, out.Stack)
			}
			if err != nil && !isDecoder(o.name) {
				rt.Fail(t, "C16/"+o.name+"/failed", "operation failed on well-formed input placed in a guarded buffer: %v", err)
				return
			}
			if cerr := p.check(); cerr != nil {
				rt.Fail(t, "C16/"+o.name+"/argument-written", "%s wrote to caller memory: %v", o.name, cerr)
				return
			}
			anySpare = anySpare || p.spare
			results = append(results, res)
		}
		if !o.random && !bytes.Equal(results[0], results[1]) {
			rt.Fail(t, "C16/"+o.name+"/depends-on-spare", "result depends on what surrounds the arguments: %x vs %x", results[0], results[1])
			return
		}
		if anySpare {
			s.Nontrivial([]byte(o.name), []byte(fmt.Sprintf("%v", in)))
		}
		s.Sample(func() any { return map[string]any{"op": o.name, "result": rt.Hex(results[0])} })
	})
}

func isDecoder(n string) bool { return len(n) > 7 && n[:7] == "decode/" }

// ---------------------------------------------------------------- histories on one request state

type held struct {
	name string
	live []byte
	copy []byte
}

type holder struct{ items []held }

func (h *holder) hold(name string, b []byte) {
	if b != nil {
		h.items = append(h.items, held{name, b, append([]byte{}, b...)})
	}
}

func (h *holder) holdToken(name string, tk tokens.Token) {
	h.hold(name+".Nonce", tk.Nonce)
	h.hold(name+".Context", tk.Context)
	h.hold(name+".KeyID", tk.KeyID)
	h.hold(name+".Authenticator", tk.Authenticator)
	h.hold(name+".Marshal()", tk.Marshal())
	h.hold(name+".AuthenticatorInput()", tk.AuthenticatorInput())
}

// marshalStorm makes n encoding calls on OTHER objects of the same shapes and sizes (tokens of the type, a challenge,
// fresh request structs): storage recycled process-wide (round-robin buffer sets, pools with a capacity) comes back to
// a value handed out earlier only after that many calls.
func marshalStorm(t *rapid.T, typ uint16, n int) {
	base := gen.Bytes(t, 32, 32, "stormField")
	for i := 0; i < n; i++ {
		f := append([]byte{}, base...)
		f[0], f[1] = byte(i), byte(i>>8)
		tk := tokens.Token{TokenType: typ, Nonce: f, Context: f, KeyID: f, Authenticator: bytes.Repeat(f[:1], gen.AuthLen(typ))}
		_ = tk.Marshal()
		_ = tk.AuthenticatorInput()
		switch i % 4 {
		case 0:
			_ = (&type1.BasicPrivateTokenRequest{TokenKeyID: f[0], BlindedReq: bytes.Repeat(f[:1], 49)}).Marshal()
		case 1:
			_ = (&type2.BasicPublicTokenRequest{TokenKeyID: f[0], BlindedReq: bytes.Repeat(f[:1], 256)}).Marshal()
		case 2:
			_ = (&type5.BatchedPrivateTokenRequest{TokenKeyID: f[0], BlindedReq: [][]byte{f, f}}).Marshal()
		case 3:
			_ = tokens.TokenChallenge{TokenType: typ, IssuerName: "issuer.example", RedemptionNonce: f, OriginInfo: []string{"origin.example"}}.Marshal()
		}
	}
}

func (h *holder) check() error {
	for _, it := range h.items {
		if !bytes.Equal(it.live, it.copy) {
			return fmt.Errorf("%s changed after it was handed out: was %x, now %x", it.name, it.copy, it.live)
		}
	}
	return nil
}

func TestHistories(t *testing.T) {
	s := rt.S("histories").SetRule("on one request state and its issuer (types 1,2,3,5): the request's fields and Marshal() output, issuer responses and finalized tokens are held (same memory) and copied as soon as they are handed out; then a drawn sequence of 2..8 further calls - finalize with the honest response, finalize with a corrupted response, Marshal again, evaluate the request again, create another request from the same client/issuer, verify the token, 9..300 encoding calls on other tokens / requests / challenges of the same sizes - after each of which every held value must equal its copy. non-trivial = history with >= 2 calls after the first hand-out; distinct by (type, request bytes, sequence)")
	rt.Check(t, 200, 40000, func(t *rapid.T) {
		defer rt.Entropy(gen.Seed().Draw(t, "entropy"))()
		typ := gen.Pick(t, []uint16{1, 2, 3, 5}, "type")
		sess, err := gen.NewSession(t, typ, gen.SessionOpts{RKeyIdx: -1, MaxBatch: 3})
		if err != nil {
			t.Fatalf("harness: %v", err)
		}
		h := &holder{}
		switch typ {
		case 1:
			h.hold("Request().BlindedReq", sess.State1.Request().BlindedReq)
			h.hold("Request().Marshal()", sess.State1.Request().Marshal())
		case 2:
			h.hold("Request().BlindedReq", sess.State2.Request().BlindedReq)
			h.hold("Request().Marshal()", sess.State2.Request().Marshal())
		case 3:
			r := sess.State3.Request()
			h.hold("Request().RequestKey", r.RequestKey)
			h.hold("Request().NameKeyID", r.NameKeyID)
			h.hold("Request().EncryptedTokenRequest", r.EncryptedTokenRequest)
			h.hold("Request().Signature", r.Signature)
			h.hold("Request().Marshal()", r.Marshal())
			h.hold("ClientKey()", sess.State3.ClientKey())
		case 5:
			for i, e := range sess.State5.Request().BlindedReq {
				h.hold(fmt.Sprintf("Request().BlindedReq[%d]", i), e)
			}
			h.hold("Request().Marshal()", sess.State5.Request().Marshal())
		}
		resp, err := sess.IssueWire(sess.RequestBytes)
		if err != nil {
			t.Fatalf("harness: %v", err)
		}
		h.hold("issuer response", resp)
		n := rapid.IntRange(2, 8).Draw(t, "calls")
		var seq []string
		s.Eval()
		s.Class(gen.TypeName(typ))
		for i := 0; i < n; i++ {
			action := gen.Pick(t, []string{"finalize", "finalize", "finalize-corrupted", "marshal", "evaluate-again", "new-request", "verify-token", "marshal-storm"}, "action")
			seq = append(seq, action)
			switch action {
			case "marshal-storm":
				marshalStorm(t, typ, gen.Pick(t, []int{9, 33, 70, 130, 300}, "stormSize"))
			case "finalize":
				toks, err := sess.Finalize(resp)
				if err != nil {
					rt.Fail(t, "C16/history/finalize-failed", "finalizing the honest response failed at step %d of %v: %v", i, seq, err)
					return
				}
				for j, tk := range toks {
					h.holdToken(fmt.Sprintf("token[%d] from call %d", j, i), tk)
				}
			case "finalize-corrupted":
				bad := append([]byte{}, resp...)
				bit := gen.Uniform(t, len(bad)*8, "bit")
				bad[bit/8] ^= 1 << (7 - bit%8)
				rt.GuardLite(func() { _, _ = sess.Finalize(bad) })
			case "marshal":
				switch typ {
				case 1:
					h.hold("Request().Marshal() again", sess.State1.Request().Marshal())
				case 2:
					h.hold("Request().Marshal() again", sess.State2.Request().Marshal())
				case 3:
					h.hold("Request().Marshal() again", sess.State3.Request().Marshal())
				case 5:
					h.hold("Request().Marshal() again", sess.State5.Request().Marshal())
				}
			case "evaluate-again":
				r2, err := sess.IssueWire(sess.RequestBytes)
				if err == nil {
					h.hold(fmt.Sprintf("issuer response from call %d", i), r2)
				}
			case "new-request":
				o := gen.SessionOpts{OKey: sess.OKey, RKeyIdx: rsaIndex(sess), RKey: sess.RKey, MaxBatch: 2}
				if typ == 3 {
					o.Issuer3, o.Origin = sess.Issuer3, &sess.Origin
				}
				s2, err := gen.NewSession(t, typ, o)
				if err == nil {
					if r2, err := s2.IssueWire(s2.RequestBytes); err == nil {
						_, _ = s2.Finalize(r2)
					}
				}
			case "verify-token":
				toks, err := sess.Finalize(resp)
				if err == nil {
					_ = sess.CheckTokens(toks)
				}
			}
			if err := h.check(); err != nil {
				rt.Fail(t, fmt.Sprintf("C16/history/type%d/%s", typ, action), "after %v on a type-%d request state: %v", seq, typ, err)
				return
			}
		}
		s.Nontrivial([]byte{byte(typ)}, sess.RequestBytes, []byte(fmt.Sprint(seq)))
		s.Sample(func() any { return map[string]any{"type": typ, "sequence": seq} })
	})
}

// TestRequestObjectReuse: encodings handed out by a request object survive decoding other values into it.
func TestRequestObjectReuse(t *testing.T) {
	s := rt.S("request-object-reuse").SetRule("one request object (types 1,2,3,5, inner request, generic batch) decodes a sequence of 2..5 drawn encodings (equal, shorter or longer than the previous one); after each decode Marshal() is called and its result held (same memory) and copied, as are the decoded fields; every held value must equal its copy after every later Unmarshal/Marshal on the object. non-trivial = sequence with >= 2 different encodings; distinct by the encodings")
	f := theFixtures()
	type kind struct {
		name   string
		gen    func(t *rapid.T) []byte
		newObj func() interface {
			Marshal() []byte
			Unmarshal([]byte) bool
		}
	}
	kinds := []kind{
		{"type1", func(t *rapid.T) []byte {
			return ref.EncodeBasicRequest(1, rapid.Byte().Draw(t, "kid"), rapid.SliceOfN(rapid.Byte(), 49, 49).Draw(t, "b"))
		}, func() interface {
			Marshal() []byte
			Unmarshal([]byte) bool
		} {
			return new(type1.BasicPrivateTokenRequest)
		}},
		{"type2", func(t *rapid.T) []byte {
			return ref.EncodeBasicRequest(2, rapid.Byte().Draw(t, "kid"), rapid.SliceOfN(rapid.Byte(), 256, 256).Draw(t, "b"))
		}, func() interface {
			Marshal() []byte
			Unmarshal([]byte) bool
		} {
			return new(type2.BasicPublicTokenRequest)
		}},
		{"type3", func(t *rapid.T) []byte {
			return ref.EncodeRateLimitedRequest(rapid.SliceOfN(rapid.Byte(), 49, 49).Draw(t, "rk"), gen.Bytes32().Draw(t, "nk"), gen.Bytes(t, 1, 300, "ct"), rapid.SliceOfN(rapid.Byte(), 96, 96).Draw(t, "sig"))
		}, func() interface {
			Marshal() []byte
			Unmarshal([]byte) bool
		} {
			return new(type3.RateLimitedTokenRequest)
		}},
		{"type5", func(t *rapid.T) []byte {
			n := gen.UniformRange(t, 0, 6, "elements")
			els := make([][]byte, n)
			for i := range els {
				els[i] = gen.Bytes32().Draw(t, "el")
			}
			return ref.EncodeBatchedPrivateRequest(rapid.Byte().Draw(t, "kid"), els)
		}, func() interface {
			Marshal() []byte
			Unmarshal([]byte) bool
		} {
			return new(type5.BatchedPrivateTokenRequest)
		}},
		{"inner", func(t *rapid.T) []byte {
			return ref.EncodeInnerRequest(rapid.Byte().Draw(t, "kid"), rapid.SliceOfN(rapid.Byte(), 256, 256).Draw(t, "b"), make([]byte, 32*gen.UniformRange(t, 0, 4, "blocks")))
		}, func() interface {
			Marshal() []byte
			Unmarshal([]byte) bool
		} {
			return new(type3.InnerTokenRequest)
		}},
		{"batch", func(t *rapid.T) []byte {
			var reqs [][]byte
			for i := gen.UniformRange(t, 1, 3, "n"); i > 0; i-- {
				if rapid.Bool().Draw(t, "t1") {
					reqs = append(reqs, f.valid["req1"])
				} else {
					reqs = append(reqs, f.valid["req2"])
				}
			}
			return ref.EncodeBatchRequest(reqs)
		}, func() interface {
			Marshal() []byte
			Unmarshal([]byte) bool
		} {
			return new(batched.BatchedTokenRequest)
		}},
	}
	rt.Check(t, 300, 100000, func(t *rapid.T) {
		k := gen.Pick(t, kinds, "kind")
		n := gen.UniformRange(t, 2, 5, "decodes")
		obj := k.newObj()
		h := &holder{}
		s.Eval()
		s.Class(k.name)
		var encs [][]byte
		for i := 0; i < n; i++ {
			enc := k.gen(t)
			encs = append(encs, enc)
			if !obj.Unmarshal(append([]byte{}, enc...)) {
				t.Fatalf("harness: well-formed %s encoding rejected (C04's business)", k.name)
			}
			if rapid.Bool().Draw(t, "marshal") || i == 0 {
				m := obj.Marshal()
				h.hold(fmt.Sprintf("Marshal() after decode %d", i), m)
			}
			switch r := obj.(type) {
			case *type1.BasicPrivateTokenRequest:
				h.hold(fmt.Sprintf("BlindedReq after decode %d", i), r.BlindedReq)
			case *type2.BasicPublicTokenRequest:
				h.hold(fmt.Sprintf("BlindedReq after decode %d", i), r.BlindedReq)
			case *type3.RateLimitedTokenRequest:
				h.hold(fmt.Sprintf("EncryptedTokenRequest after decode %d", i), r.EncryptedTokenRequest)
				h.hold(fmt.Sprintf("Signature after decode %d", i), r.Signature)
			case *type5.BatchedPrivateTokenRequest:
				for j, e := range r.BlindedReq {
					h.hold(fmt.Sprintf("BlindedReq[%d] after decode %d", j, i), e)
				}
			}
			if err := h.check(); err != nil {
				rt.Fail(t, "C16/request-object-reuse/"+k.name, "after decoding encoding %d of %d into a reused %s request object: %v", i+1, n, k.name, err)
				return
			}
		}
		if len(encs) >= 2 && !bytes.Equal(encs[0], encs[1]) {
			s.Nontrivial(append([][]byte{[]byte(k.name)}, encs...)...)
		}
		s.Sample(func() any { return map[string]any{"kind": k.name, "first": rt.Hex(encs[0]), "second": rt.Hex(encs[1])} })
	})
}

func rsaIndex(s *gen.Session) int {
	for i, k := range gen.RSAPool() {
		if k == s.RKey {
			return i
		}
	}
	return 0
}

var _ = big.NewInt

// TestConstructorArguments: memory the caller passes to a CONSTRUCTOR is still the caller's: the issuer list handed to
// NewBasicBatchedIssuer as list... must come back unchanged (same issuers, same order), and the batch issuer must not
// depend on it afterwards (the caller puts other issuers into its slice; a batch evaluated before and after must be
// answered the same way - that second part is OBSERVED, not asserted: the property is about writes).
func TestConstructorArguments(t *testing.T) {
	s := rt.S("constructor-arguments").SetRule("2..5 issuers of types 1 and 2 in a drawn order in a caller-owned slice with spare capacity, passed as list... to NewBasicBatchedIssuer: the slice (and its spare capacity) is unchanged afterwards; an honest two-request batch is answered. Observed, not asserted: whether the issuer follows later changes of the caller's slice. non-trivial = order not sorted by type; distinct by (keys, order)")
	rt.Check(t, 40, 6000, func(t *rapid.T) {
		defer rt.Entropy(gen.Seed().Draw(t, "entropy"))()
		seed := gen.Seed().Draw(t, "keyseed")
		k1 := gen.OPRFKey(oprf.SuiteP384, seed)
		rsaIdx := gen.RSAKey().Draw(t, "rsakey")
		i1 := gen.Batch1{I: type1.NewBasicPrivateIssuer(k1)}
		i2 := gen.Batch2{I: type2.NewBasicPublicIssuer(gen.RSAPool()[rsaIdx])}
		other1 := gen.Batch1{I: type1.NewBasicPrivateIssuer(gen.OPRFKey(oprf.SuiteP384, append(append([]byte{}, seed...), 1)))}
		other2 := gen.Batch2{I: type2.NewBasicPublicIssuer(gen.RSAPool()[(rsaIdx+1)%8])}
		list := []batched.Issuer{i2, i1}
		// (further issuers must not share a truncated key id with one of the same type: which of two such issuers answers is
		// decided by their order, and that is not what this test is about)
		add := func(x batched.Issuer) {
			for _, y := range list {
				if y.Type() == x.Type() && y.TokenKeyID()[31] == x.TokenKeyID()[31] {
					return
				}
			}
			list = append(list, x)
		}
		for n := gen.Uniform(t, 4, "extra"); n > 0; n-- {
			if rapid.Bool().Draw(t, "extraType1") {
				add(gen.Batch1{I: type1.NewBasicPrivateIssuer(gen.OPRFKey(oprf.SuiteP384, append(append([]byte{}, seed...), byte(10+n))))})
			} else {
				add(other2)
			}
		}
		list = rapid.Permutation(list).Draw(t, "order")
		arg := make([]batched.Issuer, len(list), len(list)+3)
		copy(arg, list)
		spare := arg[:cap(arg)]
		s.Eval()
		sorted := true
		for i := 1; i < len(list); i++ {
			if list[i-1].Type() > list[i].Type() {
				sorted = false
			}
		}
		if !sorted {
			s.Nontrivial(seed, []byte(fmt.Sprint(rsaIdx, len(list))))
		}
		bi := batched.NewBasicBatchedIssuer(arg...)
		for i := range spare {
			if (i < len(list) && spare[i] != list[i]) || (i >= len(list) && spare[i] != nil) {
				rt.Fail(t, "C16/constructor/argument-written", "NewBasicBatchedIssuer(list...) changed the caller's slice at index %d (length %d, capacity %d)", i, len(list), cap(arg))
				return
			}
		}
		sa, err1 := gen.NewSession(t, 1, gen.SessionOpts{OKey: k1})
		sb, err2 := gen.NewSession(t, 2, gen.SessionOpts{RKeyIdx: rsaIdx})
		if err1 != nil || err2 != nil {
			t.Fatalf("harness: %v %v", err1, err2)
		}
		br, err := batched.NewBasicClient().CreateTokenRequest([]tokens.TokenRequestWithDetails{sa.State1.Request(), sb.State2.Request()})
		if err != nil {
			t.Fatalf("harness: %v", err)
		}
		// Observation only (not asserted - the property speaks about writes, not about retention): does the batch issuer
		// still refer to the caller's slice? The caller puts other issuers into it and the same batch is evaluated again.
		answers := func() bool {
			enc, err := bi.EvaluateBatch(br)
			if err != nil {
				return false
			}
			resps, err := batched.UnmarshalBatchedTokenResponses(enc)
			if err != nil || len(resps) != 2 || len(resps[0]) == 0 || len(resps[1]) == 0 {
				return false
			}
			_, e1 := sa.Finalize(resps[0])
			_, e2 := sb.Finalize(resps[1])
			return e1 == nil && e2 == nil
		}
		if !answers() {
			rt.Fail(t, "C16/constructor/honest-batch-refused", "batch issuer built from a caller-owned slice does not answer an honest two-request batch")
			return
		}
		for i := range arg {
			if arg[i].Type() == 1 {
				arg[i] = other1
			} else {
				arg[i] = other2
			}
		}
		if o := rt.GuardLite(func() {
			if !answers() {
				s.Class("observed:batch-issuer-follows-later-changes-of-the-callers-slice")
			}
		}); o.Panic != nil {
			s.Class("observed:batch-issuer-follows-later-changes-of-the-callers-slice")
		}
		s.Sample(func() any { return map[string]any{"issuers": len(list)} })
	})
}

// TestBatchObjectReuse: a batch request object built by the client from the CALLER's request objects is reused to decode
// another batch (same positions, same types): the caller's requests - values handed out earlier - must keep their
// contents, whether the decode succeeds or stops half-way.
func TestBatchObjectReuse(t *testing.T) {
	s := rt.S("batch-object-reuse").SetRule("two requests (type 1, type 2) of the caller are put into a batch with BatchedClient.CreateTokenRequest; their fields and encodings are held; the SAME batch object then decodes another batch of the same shape (well-formed, or truncated half-way); held values must be unchanged and the caller's request states must still finalize the issuer's answers to their own requests. non-trivial = every case; distinct by request bytes")
	rt.Check(t, 30, 6000, func(t *rapid.T) {
		defer rt.Entropy(gen.Seed().Draw(t, "entropy"))()
		k1 := gen.OPRFKey(oprf.SuiteP384, gen.Seed().Draw(t, "keyseed"))
		rsaIdx := gen.RSAKey().Draw(t, "rsakey")
		mk := func() (*gen.Session, *gen.Session) {
			a, err1 := gen.NewSession(t, 1, gen.SessionOpts{OKey: k1})
			b, err2 := gen.NewSession(t, 2, gen.SessionOpts{RKeyIdx: rsaIdx})
			if err1 != nil || err2 != nil {
				t.Fatalf("harness: %v %v", err1, err2)
			}
			return a, b
		}
		a1, a2 := mk()
		b1, b2 := mk()
		order := rapid.Bool().Draw(t, "type2First")
		list := func(x, y *gen.Session) []tokens.TokenRequestWithDetails {
			if order {
				return []tokens.TokenRequestWithDetails{y.State2.Request(), x.State1.Request()}
			}
			return []tokens.TokenRequestWithDetails{x.State1.Request(), y.State2.Request()}
		}
		batchA, err := batched.NewBasicClient().CreateTokenRequest(list(a1, a2))
		if err != nil {
			t.Fatalf("harness: %v", err)
		}
		batchB, err := batched.NewBasicClient().CreateTokenRequest(list(b1, b2))
		if err != nil {
			t.Fatalf("harness: %v", err)
		}
		h := &holder{}
		h.hold("type-1 request BlindedReq", a1.State1.Request().BlindedReq)
		h.hold("type-1 request Marshal()", a1.State1.Request().Marshal())
		h.hold("type-2 request BlindedReq", a2.State2.Request().BlindedReq)
		h.hold("type-2 request Marshal()", a2.State2.Request().Marshal())
		h.hold("batch Marshal()", batchA.Marshal())
		other := append([]byte{}, batchB.Marshal()...)
		if rapid.Bool().Draw(t, "truncatedHalfWay") {
			other = other[:len(other)-gen.UniformRange(t, 1, 200, "cut")]
		}
		s.Eval()
		s.Nontrivial(a1.RequestBytes, a2.RequestBytes, other)
		rt.GuardLite(func() { _ = batchA.Unmarshal(other) })
		if err := h.check(); err != nil {
			rt.Fail(t, "C16/batch-object-reuse", "after the batch object decoded another batch: %v", err)
			return
		}
		// the request OBJECTS are the caller's too: re-read, they still say what they said
		if !bytes.Equal(a1.State1.Request().Marshal(), a1.RequestBytes) || !bytes.Equal(a2.State2.Request().Marshal(), a2.RequestBytes) ||
			!bytes.Equal(a1.State1.Request().BlindedReq, a1.RequestBytes[3:]) || !bytes.Equal(a2.State2.Request().BlindedReq, a2.RequestBytes[3:]) {
			rt.Fail(t, "C16/batch-object-reuse", "after the batch object decoded another batch, the caller's request objects (handed to the batch client earlier) hold another request")
			return
		}
		for _, x := range []*gen.Session{a1, a2} {
			resp, err := x.IssueWire(x.RequestBytes)
			if err != nil {
				t.Fatalf("harness: %v", err)
			}
			if toks, err := x.Finalize(resp); err != nil || x.CheckTokens(toks) != nil {
				rt.Fail(t, "C16/batch-object-reuse", "after the batch object decoded another batch, a caller's request state no longer finalizes the answer to its own request: %v", err)
				return
			}
		}
		s.Sample(func() any { return map[string]any{"other_batch_bytes": len(other)} })
	})
}
