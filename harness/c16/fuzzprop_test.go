package c16

import (
	"testing"

	"verifharness/internal/rt"
)

// The rapid properties of this package under the native, coverage-guided fuzzer (thorough tier): the fuzzer's
// byte string is the stream the property draws from (rt.FuzzProp), so generators, oracle and failure
// signatures are exactly those of the named test.

func FuzzPropArgumentsUntouched(f *testing.F)   { rt.FuzzProp(f, rt.Capture(TestArgumentsUntouched)) }
func FuzzPropHistories(f *testing.F)            { rt.FuzzProp(f, rt.Capture(TestHistories)) }
func FuzzPropRequestObjectReuse(f *testing.F)   { rt.FuzzProp(f, rt.Capture(TestRequestObjectReuse)) }
func FuzzPropConstructorArguments(f *testing.F) { rt.FuzzProp(f, rt.Capture(TestConstructorArguments)) }
func FuzzPropBatchObjectReuse(f *testing.F)     { rt.FuzzProp(f, rt.Capture(TestBatchObjectReuse)) }
