// C10 — issuer-side token verification accepts exactly the tokens it issued.
package c10

import (
	"bytes"
	"fmt"
	"testing"

	"github.com/cloudflare/circl/oprf"
	"github.com/cloudflare/pat-go/tokens"
	"github.com/cloudflare/pat-go/tokens/type1"
	"github.com/cloudflare/pat-go/tokens/type5"
	"pgregory.net/rapid"

	"verifharness/internal/gen"
	"verifharness/internal/rt"
)

func TestMain(m *testing.M) { rt.Main(m) }

type verifier struct {
	typ   uint16
	suite oprf.Suite
	key   *oprf.PrivateKey
	fn    func(tokens.Token) error
}

func newVerifier(typ uint16, key *oprf.PrivateKey) verifier {
	if typ == 1 {
		return verifier{1, oprf.SuiteP384, key, type1.NewBasicPrivateIssuer(key).Verify}
	}
	return verifier{5, oprf.SuiteRistretto255, key, type5.NewBatchedPrivateIssuer(key).Verify}
}

// check: Verify(token) == nil  <=>  authenticator == VOPRF_key(type || nonce || context || key id), the right-hand side through circl.
func check(t *rapid.T, s *rt.Sub, v verifier, tok tokens.Token, class string, honestBytes []byte) {
	input := []byte{byte(tok.TokenType >> 8), byte(tok.TokenType)}
	input = append(append(append(input, tok.Nonce...), tok.Context...), tok.KeyID...)
	want := bytes.Equal(gen.VOPRFOutput(v.suite, v.key, input), tok.Authenticator)
	var err error
	o := rt.GuardLite(func() { err = v.fn(tok) })
	s.Eval()
	s.Class(class)
	if m := tok.Marshal(); !bytes.Equal(m, honestBytes) {
		s.Nontrivial([]byte{byte(v.typ)}, m, []byte(class))
	}
	if o.Panic != nil {
		rt.Fail(t, fmt.Sprintf("C10/type%d/%s/panic", v.typ, class), "Verify panicked: %v", o.Panic)
		return
	}
	if want {
		s.Class("model:valid")
	} else {
		s.Class("model:invalid")
	}
	if (err == nil) != want {
		rt.Fail(t, fmt.Sprintf("C10/type%d/%s/verdict", v.typ, class), "type-%d issuer Verify returned %v, but authenticator==VOPRF(input) is %v; token %s", v.typ, err, want, rt.Hex(tok.Marshal()))
	}
}

func decode(typ uint16, b []byte) (tokens.Token, error) {
	if typ == 1 {
		return type1.UnmarshalPrivateToken(b)
	}
	return type5.UnmarshalBatchedPrivateToken(b)
}

func run(t *testing.T, typ uint16) {
	s := rt.S(gen.TypeName(typ)).SetRule("honest token of the type; every single-bit variant of its encoding (exhaustive per drawn run); the same token under another key; the token given to the issuer of the other type with and without rewriting the type field; field-boundary moves, truncated/extended/empty authenticator; oracle: Verify==nil iff authenticator equals circl FullEvaluate of type||nonce||context||key id as carried in the token. non-trivial = variant differs from the honest token; distinct by (type, bytes, class)")
	other := uint16(6 - typ) // 1 <-> 5
	suiteOf := map[uint16]oprf.Suite{1: oprf.SuiteP384, 5: oprf.SuiteRistretto255}
	rt.Check(t, 6, 480, func(t *rapid.T) {
		defer rt.Entropy(gen.Seed().Draw(t, "entropy"))()
		sess, err := gen.NewSession(t, typ, gen.SessionOpts{MaxBatch: 2})
		if err != nil {
			t.Fatalf("harness: %v", err)
		}
		resp, err := sess.IssueWire(sess.RequestBytes)
		if err != nil {
			t.Fatalf("harness: %v", err)
		}
		toks, err := sess.Finalize(resp)
		if err != nil {
			t.Fatalf("harness: %v", err)
		}
		tok := toks[0]
		honest := tok.Marshal()
		v := newVerifier(typ, sess.OKey)
		check(t, s, v, tok, "honest", honest)
		if err := v.fn(tok); err != nil {
			t.Fatalf("harness health: honest token rejected (C01's business): %v", err)
		}
		// every single-bit variant
		for bit := 0; bit < len(honest)*8; bit++ {
			b := append([]byte{}, honest...)
			b[bit/8] ^= 1 << (7 - bit%8)
			vt, err := decode(typ, b)
			if err != nil {
				t.Fatalf("harness: token decoder rejected a same-length variant: %v", err)
			}
			region := "nonce"
			switch i := bit / 8; {
			case i < 2:
				region = "type"
			case i < 34:
				region = "nonce"
			case i < 66:
				region = "context"
			case i < 98:
				region = "keyid"
			default:
				region = "authenticator"
			}
			check(t, s, v, vt, "bitflip-"+region, honest)
		}
		s.MarkExhaustive("all single-bit variants of each drawn honest token")
		// another key of the same type
		otherKey := gen.OPRFKey(suiteOf[typ], append(gen.Seed().Draw(t, "otherkey"), 9))
		check(t, s, newVerifier(typ, otherKey), tok, "other-key", honest)
		// another key of the same type whose key id ends in the SAME byte (found by derivation), used after the first issuer has verified
		base := gen.Seed().Draw(t, "collideseed")
		for c := 0; c < 4096; c++ {
			k2 := gen.OPRFKey(suiteOf[typ], append(append([]byte{}, base...), byte(c), byte(c>>8), 7))
			id2 := gen.OPRFKeyID(k2)
			if id2[31] != sess.KeyID[31] || bytes.Equal(id2, sess.KeyID) {
				continue
			}
			v2 := newVerifier(typ, k2)
			check(t, s, v2, tok, "other-key-same-truncated-id", honest)
			// and the colliding issuer's own token (built through circl) must be accepted by it and rejected by the first
			in2 := gen.AuthInput(typ, tok.Nonce, sess.Challenge, id2)
			own := tokens.Token{TokenType: typ, Nonce: tok.Nonce, Context: tok.Context, KeyID: id2, Authenticator: gen.VOPRFOutput(suiteOf[typ], k2, in2)}
			check(t, s, v2, own, "colliding-issuer-own-token", honest)
			check(t, s, v, own, "colliding-issuer-token-at-first-issuer", honest)
			break
		}
		// the other issuer type, same scalar is meaningless across groups: use a fresh key; with and without type rewrite
		xv := newVerifier(other, gen.OPRFKey(suiteOf[other], gen.Seed().Draw(t, "xkey")))
		check(t, s, xv, tok, "other-type-issuer", honest)
		rew := tok
		rew.TokenType = other
		check(t, s, xv, rew, "other-type-issuer-type-rewritten", honest)
		check(t, s, v, rew, "type-rewritten", honest)
		// other values of the type field (the type is part of the authenticator input, big-endian): the byte-swapped own and
		// other type, reserved and random values; each once on the honest token (authenticator no longer matches) and once
		// with the authenticator recomputed through circl for the fields as carried (matches)
		for _, tv := range []uint16{typ<<8 | typ>>8, other<<8 | other>>8, 0x0000, 0xffff, 0x0002, 0x0003, uint16(gen.Uniform(t, 65536, "randomType"))} {
			if tv == typ {
				continue
			}
			xt := tok
			xt.TokenType = tv
			check(t, s, v, xt, "type-field-other-value", honest)
			xt.Authenticator = gen.VOPRFOutput(suiteOf[typ], sess.OKey, gen.AuthInput(tv, tok.Nonce, sess.Challenge, tok.KeyID))
			check(t, s, v, xt, "type-field-other-value-authenticator-recomputed", honest)
		}
		// field-length variants (the concatenation decides)
		cat := honest[2:98]
		for i := 0; i < 12; i++ {
			a := gen.UniformRange(t, 0, 96, "cutA")
			b := gen.UniformRange(t, a, 96, "cutB")
			ft := tokens.Token{TokenType: tok.TokenType, Nonce: cat[:a], Context: cat[a:b], KeyID: cat[b:], Authenticator: tok.Authenticator}
			check(t, s, v, ft, "boundary-moved", honest)
		}
		// the boundary between key id and authenticator moved (both lengths change together, the concatenation stays the honest token)
		whole := honest[2:]
		for _, kidLen := range []int{31, 33, 30, 34, 0, 32 + len(tok.Authenticator)} {
			cutAt := 64 + kidLen
			if cutAt > len(whole) {
				cutAt = len(whole)
			}
			ft := tokens.Token{TokenType: tok.TokenType, Nonce: whole[:32], Context: whole[32:64], KeyID: whole[64:cutAt], Authenticator: whole[cutAt:]}
			check(t, s, v, ft, "keyid-authenticator-boundary-moved", honest)
		}
		for _, n := range []int{0, 1, len(tok.Authenticator) - 1} {
			ft := tok
			ft.Authenticator = tok.Authenticator[:n]
			check(t, s, v, ft, "authenticator-prefix", honest)
		}
		ft := tok
		ft.Authenticator = append(append([]byte{}, tok.Authenticator...), gen.Bytes(t, 1, 8, "ext")...)
		check(t, s, v, ft, "authenticator-extended", honest)
		for i := 0; i < 6; i++ {
			ft := tok
			switch gen.Uniform(t, 3, "field") {
			case 0:
				ft.Nonce = gen.Bytes(t, 0, 40, "nonce")
			case 1:
				ft.Context = gen.Bytes(t, 0, 40, "ctx")
			case 2:
				ft.KeyID = gen.Bytes(t, 0, 40, "kid")
			}
			check(t, s, v, ft, "field-replaced", honest)
		}
		// very long fields: the authenticator input is type || nonce || context || key id as carried, whatever its length (a
		// 16-bit length written somewhere inside an evaluation wraps at 65536 input bytes); with the honest authenticator
		// (must be refused) and with the authenticator recomputed through circl (must be accepted)
		for which := 0; which < 3; which++ {
			n := gen.Pick(t, []int{65437, 65438, 65439, 65470, 65535, 65536, 70000}, "giantLen")
			giant := make([]byte, n)
			for i := range giant {
				giant[i] = byte(i*11 + n)
			}
			gt := tok
			switch which {
			case 0:
				gt.Nonce = giant
			case 1:
				gt.Context = giant
			case 2:
				gt.KeyID = giant
			}
			check(t, s, v, gt, "giant-field", honest)
			in := append([]byte{byte(typ >> 8), byte(typ)}, gt.Nonce...)
			in = append(append(in, gt.Context...), gt.KeyID...)
			gt.Authenticator = gen.VOPRFOutput(suiteOf[typ], sess.OKey, in)
			check(t, s, v, gt, "giant-field-authenticator-recomputed", honest)
		}
		s.Sample(func() any { return map[string]any{"type": typ, "token": rt.Hex(honest)} })
	})
}

func TestType1(t *testing.T) { run(t, 1) }
func TestType5(t *testing.T) { run(t, 5) }
