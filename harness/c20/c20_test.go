// C20 — origin names are recovered exactly; their length leaks only in 32-byte buckets.
package c20

import (
	"bytes"
	"crypto/rand"
	"fmt"
	"io"
	"sort"
	"strings"
	"testing"

	"github.com/cloudflare/pat-go/tokens/type3"
	"pgregory.net/rapid"

	"verifharness/internal/gen"
	"verifharness/internal/rt"
)

func TestMain(m *testing.M) { rt.Main(m) }

func blocks(n int) int {
	if n == 0 {
		return 1
	}
	return (n + 31) / 32
}

type world struct {
	rsaIdx int
	secret []byte
	blind  []byte
	chal   []byte
	nonce  []byte
}

// request creates a rate-limited request for origin against issuer's keys.
func (w world) request(iss *type3.RateLimitedIssuer, origin string) ([]byte, error) {
	st, err := type3.NewRateLimitedClientFromSecret(w.secret).CreateTokenRequest(w.chal, w.nonce, w.blind, iss.TokenKeyID(), iss.TokenKey(), origin, iss.NameKey())
	if err != nil {
		return nil, err
	}
	return append([]byte{}, st.Request().Marshal()...), nil
}

func issuerWith(rsaIdx int, origins ...string) *type3.RateLimitedIssuer {
	iss := type3.NewRateLimitedIssuer(gen.RSAPool()[rsaIdx])
	for _, o := range origins {
		if err := iss.AddOrigin(o); err != nil {
			panic(err)
		}
	}
	return iss
}

// nearMisses: names that differ from name only slightly, none equal to it.
func nearMisses(name string) []string {
	var out []string
	add := func(s string) {
		if s != name {
			out = append(out, s)
		}
	}
	b := []byte(name)
	if len(b) > 0 {
		c := append([]byte{}, b...)
		c[len(c)-1] ^= 0x01
		add(string(c))
		c = append([]byte{}, b...)
		c[len(c)-1] ^= 0x80
		add(string(c))
		add(string(b[:len(b)-1])) // one byte removed
		c = append([]byte{}, b...)
		c[0] ^= 0x20 // case change of the first byte
		add(string(c))
	}
	add(name + "x")             // one byte appended
	add(name + "\x00x")         // padding-like byte then non-zero
	add(name + "\x00\x00\x00x") // several padding-like bytes then non-zero
	add(name + strings.Repeat("\x00", 31) + "x")
	add("x" + name)
	add(strings.ToUpper(name))
	add("")
	for _, tw := range gen.ChecksumTwins() {
		if tw.A == name {
			add(tw.B)
		}
	}
	for _, la := range gen.LookAlikes(name) {
		if len(la) < 4000 { // (keeps the registration list small for the very long names of TestEveryLength)
			add(la)
		}
	}
	return out
}

func content(r io.Reader, n int, kind int) string {
	b := make([]byte, n)
	io.ReadFull(r, b)
	for i := range b {
		switch kind {
		case 0: // host-like
			b[i] = "abcdefghijklmnopqrstuvwxyz.-0123456789"[int(b[i])%38]
		case 1: // arbitrary non-zero bytes
			if b[i] == 0 {
				b[i] = 1
			}
		case 2: // interior NULs allowed
			if i%5 != 2 {
				if b[i] == 0 {
					b[i] = 7
				}
			} else {
				b[i] = 0
			}
		}
	}
	if n > 0 && b[n-1] == 0 {
		b[n-1] = 'z' // the property is about names that do not end in a zero byte
	}
	return string(b)
}

func lengths() []int {
	set := map[int]bool{}
	max, upto := 130, 4096
	if rt.Thorough() {
		max, upto = 4096, 16384
	}
	for i := 0; i <= max; i++ {
		set[i] = true
	}
	for m := 32; m <= upto; m += 32 {
		if m <= 4096 || m%1024 == 0 {
			set[m-1], set[m], set[m+1] = true, true, true
		}
	}
	// 65216 = 32*2038 is the longest name the wire format can carry: enc(32) + inner(1+256+2+padded) + tag(16) <= 65535.
	// (Longer names make the CLIENT panic inside cryptobyte's BytesOrPanic - a local argument, outside this property.)
	// The top of the range is in both tiers: 16-bit sums of lengths wrap just below it.
	for _, x := range []int{32768, 65024, 65025, 65056, 65215, 65216} {
		set[x] = true
	}
	if rt.Thorough() {
		for _, x := range []int{20000, 32767, 40000, 65000, 65100, 65185} {
			set[x] = true
		}
	}
	out := make([]int, 0, len(set))
	for k := range set {
		out = append(out, k)
	}
	sort.Ints(out)
	return out
}

func TestEveryLength(t *testing.T) {
	s := rt.S("every-length").SetRule("for EVERY name length 0..130 (thorough: 0..4096) and every multiple of 32 +-1 up to 4096, and 32768, 65024..65216 (65216 is the largest name that fits the wire format; thorough: further lengths in between): a name of that length (host-like / arbitrary non-zero bytes / interior NULs; never ending in 0x00) is requested; with exactly that name registered the issuer must serve it, with only near-misses registered it must refuse; wire length must be identical for all names with the same number of 32-byte blocks and differ between block counts. non-trivial = every length; distinct by construction")
	defer rt.Entropy([]byte(fmt.Sprintf("c20 every length %d", rt.BaseSeed)))()
	w := world{rsaIdx: int(rt.BaseSeed % 8), chal: []byte("challenge"), nonce: bytes.Repeat([]byte{7}, 32)}
	w.secret = bytes.Repeat([]byte{0x11}, 48)
	w.blind = bytes.Repeat([]byte{0x22}, 48)
	sizeOf := map[int]int{} // block count -> wire length
	ls := lengths()
	for li, n := range ls {
		if !rt.Mine(li) {
			continue
		}
		name := content(rand.Reader, n, li%3)
		s.Eval()
		s.NontrivialEnum(1)
		iss := issuerWith(w.rsaIdx, name)
		req, err := w.request(iss, name)
		if err != nil {
			rt.Report(t, "C20/create", "", nil, "request for a %d-byte name could not be created: %v", n, err)
			continue
		}
		if _, _, err := iss.Evaluate(req); err != nil {
			rt.Report(t, "C20/not-served", "", nil, "request for the registered %d-byte name %q is refused: %v", n, clip(name), err)
		}
		if prev, ok := sizeOf[blocks(n)]; ok && prev != len(req) {
			rt.Report(t, "C20/size-law", "", nil, "names needing %d blocks give requests of %d and %d bytes (name length %d)", blocks(n), prev, len(req), n)
		}
		sizeOf[blocks(n)] = len(req)
		// the same request against an issuer that knows only near-misses
		near := issuerWithNameKey(t, w.rsaIdx, iss, nearMisses(name))
		if near != nil {
			req2, err := w.request(near, name)
			if err == nil {
				if _, _, err := near.Evaluate(req2); err == nil {
					rt.Report(t, "C20/near-miss-served", "", nil, "request for %q (%d bytes) is served by an issuer that registered only near-misses of it", clip(name), n)
				}
			}
		}
		s.Sample(func() any {
			return map[string]any{"length": n, "blocks": blocks(n), "wire_length": len(req), "name": clip(name)}
		})
	}
	// block counts must be distinguishable (strictly increasing size), otherwise the law above is vacuous
	var bs []int
	for b := range sizeOf {
		bs = append(bs, b)
	}
	sort.Ints(bs)
	for i := 1; i < len(bs); i++ {
		if sizeOf[bs[i]] <= sizeOf[bs[i-1]] {
			rt.Report(t, "C20/size-monotone", "", nil, "%d blocks -> %d bytes but %d blocks -> %d bytes", bs[i-1], sizeOf[bs[i-1]], bs[i], sizeOf[bs[i]])
		}
	}
	s.MarkExhaustive("every name length in the stated ranges (one content per length)")
}

func issuerWithNameKey(t *testing.T, rsaIdx int, _ *type3.RateLimitedIssuer, origins []string) *type3.RateLimitedIssuer {
	return issuerWith(rsaIdx, origins...)
}

func clip(s string) string {
	if len(s) > 40 {
		return fmt.Sprintf("%q...(%d bytes)", s[:40], len(s))
	}
	return s
}

func TestDrawnNames(t *testing.T) {
	s := rt.S("drawn-names").SetRule("drawn names (length biased to block boundaries, drawn content incl. interior NULs and non-ASCII) and a drawn second name with the same block count: exact-name service, near-miss refusal (last byte changed, byte appended/removed, 00-then-nonzero suffixes, case change, empty), equal wire length within a block count; also a request for a near-miss against an issuer that registered the name itself. non-trivial = every case; distinct by name")
	rt.Check(t, 120, 20000, func(t *rapid.T) {
		defer rt.Entropy(gen.Seed().Draw(t, "entropy"))()
		w := world{rsaIdx: gen.RSAKey().Draw(t, "rsakey"), chal: gen.Challenge().Draw(t, "challenge"), nonce: gen.Bytes32().Draw(t, "nonce"),
			secret: gen.P384KeyBytes().Draw(t, "secret"), blind: gen.P384KeyBytes().Draw(t, "blind")}
		var n int
		switch gen.Uniform(t, 3, "lenkind") {
		case 0:
			n = 32*gen.UniformRange(t, 0, 8, "blk") + gen.Pick(t, []int{-1, 0, 1, 2, 31}, "delta")
			if n < 0 {
				n = 0
			}
		case 1:
			n = gen.UniformRange(t, 0, 100, "len")
		default:
			n = gen.UniformRange(t, 0, 1500, "len")
		}
		mk := func(label string, n int) string {
			b := rapid.SliceOfN(rapid.Byte(), n, n).Draw(t, label)
			if n > 0 && b[n-1] == 0 {
				b[n-1] = 0xff
			}
			if rapid.Bool().Draw(t, label+"/hostlike") {
				for i := range b {
					b[i] = "abcdefghijklmnopqrstuvwxyz.-0123456789"[int(b[i])%38]
				}
			}
			return string(b)
		}
		name := mk("name", n)
		s.Eval()
		s.Nontrivial([]byte(name))
		s.Class(fmt.Sprintf("len%%32=%d", map[bool]int{true: 0, false: 1}[n%32 == 0]))
		iss := issuerWith(w.rsaIdx, name)
		req, err := w.request(iss, name)
		if err != nil {
			rt.Fail(t, "C20/create", "request for a %d-byte name could not be created: %v", n, err)
			return
		}
		if _, _, err := iss.Evaluate(req); err != nil {
			rt.Fail(t, "C20/not-served", "request for the registered name %q is refused: %v", clip(name), err)
			return
		}
		// a second name with the same block count -> same wire length
		lo, hi := 32*(blocks(n)-1)+1, 32*blocks(n)
		if blocks(n) == 1 {
			lo = 0
		}
		n2 := gen.UniformRange(t, lo, hi, "len2")
		name2 := mk("name2", n2)
		iss2 := issuerWith(w.rsaIdx, name2)
		req2, err := w.request(iss2, name2)
		if err != nil {
			rt.Fail(t, "C20/create", "request for a %d-byte name could not be created: %v", n2, err)
			return
		}
		if len(req2) != len(req) {
			rt.Fail(t, "C20/size-law", "names of %d and %d bytes both need %d blocks but give requests of %d and %d bytes", n, n2, blocks(n), len(req), len(req2))
			return
		}
		// the same law for a client that was given the name key in ANOTHER published configuration (KDF / AEAD ids other than
		// the issuer's default; same KEM and public key): the buckets are 32 bytes whatever the suite. Only the client side is
		// looked at - sizes of requests for the name, a name with the same block count, and the name extended by one block.
		if rapid.Bool().Draw(t, "otherNameKeyConfiguration") {
			nk := append([]byte{}, iss.NameKey().Marshal()...)
			kdf, aead := gen.Pick(t, []byte{1, 2, 3}, "kdf"), gen.Pick(t, []byte{1, 2, 3}, "aead")
			nk[36], nk[38] = kdf, aead
			alt, err := type3.UnmarshalEncapKey(nk)
			if err != nil {
				s.Class("other-name-key-configuration-refused")
			} else {
				size := func(origin string) int {
					st, err := type3.NewRateLimitedClientFromSecret(w.secret).CreateTokenRequest(w.chal, w.nonce, w.blind, iss.TokenKeyID(), iss.TokenKey(), origin, alt)
					if err != nil {
						return -1
					}
					return len(st.Request().Marshal())
				}
				a1, a2, a3 := size(name), size(name2), size(name+strings.Repeat("z", 32))
				if a1 > 0 && a2 > 0 && a3 > 0 {
					s.Class(fmt.Sprintf("other-name-key-configuration-kdf%d-aead%d", kdf, aead))
					if a1 != a2 || a3-a1 != 32*(blocks(n+32)-blocks(n)) { // (the empty name already takes one block)
						rt.Fail(t, "C20/size-law", "client configured with the name key under KDF id %d / AEAD id %d: names of %d and %d bytes (both %d blocks) give requests of %d and %d bytes; one more 32-byte block gives %d (expected equal, and +32)", kdf, aead, n, n2, blocks(n), a1, a2, a3)
						return
					}
				}
			}
		}
		// near-misses registered, the name requested
		near := nearMisses(name)
		issNear := issuerWith(w.rsaIdx, near...)
		reqN, err := w.request(issNear, name)
		if err == nil {
			if _, _, err := issNear.Evaluate(reqN); err == nil {
				rt.Fail(t, "C20/near-miss-served", "request for %q is served by an issuer that registered only near-misses", clip(name))
				return
			}
		}
		// the name registered, a near-miss requested (only near-misses that are themselves valid names: no trailing zero)
		nm := gen.Pick(t, near, "nearmiss")
		if nm == "" || nm[len(nm)-1] != 0 {
			reqM, err := w.request(iss, nm)
			if err == nil {
				if _, _, err := iss.Evaluate(reqM); err == nil {
					rt.Fail(t, "C20/near-miss-served", "request for near-miss %q is served by an issuer that registered only %q", clip(nm), clip(name))
					return
				}
			}
			s.Class("near-miss-requested")
		}
		// an origin registered AFTER the issuer has already evaluated requests is served like any other
		late := mk("lateName", gen.UniformRange(t, 0, 70, "lateLen"))
		if late != name { // (the issuer knows only `name` so far; the harness keeps its own record)
			if err := iss.AddOrigin(late); err != nil {
				t.Fatalf("harness: %v", err)
			}
			reqL, err := w.request(iss, late)
			if err != nil {
				rt.Fail(t, "C20/create", "request for a %d-byte name could not be created: %v", len(late), err)
				return
			}
			if _, _, err := iss.Evaluate(reqL); err != nil {
				rt.Fail(t, "C20/not-served-late-registration", "request for %q, registered after the issuer had evaluated other requests, is refused: %v", clip(late), err)
				return
			}
			if _, _, err := iss.Evaluate(req); err != nil {
				rt.Fail(t, "C20/not-served", "request for the first registered name is refused after another origin was added: %v", err)
				return
			}
			s.Class("late-registration")
		}
		s.Sample(func() any {
			return map[string]any{"name": clip(name), "length": n, "second_length": n2, "wire_length": len(req)}
		})
	})
}
