package c03

import (
	"testing"

	"verifharness/internal/gen"
)

// Native coverage-guided targets (thorough tier): one per entry of the target
// table, the C03 oracle inside the fuzz function, seeded with the valid message,
// hostile length values over its fields, and a few degenerate inputs.
func fuzzTarget(f *testing.F, name string) {
	tg := targetByName(name)
	if tg == nil {
		f.Fatalf("no target %q", name)
	}
	f.Add([]byte{})
	f.Add([]byte{0xff, 0xff, 0xff, 0xff, 0xff, 0xff, 0xff, 0xff, 0xff, 0xff, 0xff, 0xff})
	for _, seed := range tg.seeds {
		f.Add(seed)
		offs := tg.fields
		if len(offs) == 0 {
			offs = []int{0, 2}
		}
		for _, off := range offs {
			if off > len(seed) {
				continue
			}
			for _, v := range []uint64{0, 1 << 30, 1 << 33, 1<<62 - 1} {
				encs := gen.LengthEncodings(v)
				enc := encs[len(encs)-1]
				in := append(append([]byte{}, seed[:off]...), enc...)
				if off+len(enc) < len(seed) {
					in = append(in, seed[off+len(enc):]...)
				}
				f.Add(in)
			}
		}
	}
	f.Fuzz(func(t *testing.T, in []byte) {
		if len(in) > 1<<16 {
			return
		}
		if err := checkInput(tg, in, true); err != nil {
			t.Fatal(err)
		}
	})
}

func FuzzTokenChallenge(f *testing.F) { fuzzTarget(f, "UnmarshalTokenChallenge") }
func FuzzToken1(f *testing.F)         { fuzzTarget(f, "type1.UnmarshalPrivateToken+Verify") }
func FuzzToken2(f *testing.F)         { fuzzTarget(f, "type2.UnmarshalToken") }
func FuzzToken3(f *testing.F)         { fuzzTarget(f, "type3.UnmarshalToken") }
func FuzzToken5(f *testing.F)         { fuzzTarget(f, "type5.UnmarshalBatchedPrivateToken+Verify") }
func FuzzRequest1(f *testing.F)       { fuzzTarget(f, "type1.TokenRequest.Unmarshal+Evaluate") }
func FuzzRequest2(f *testing.F)       { fuzzTarget(f, "type2.TokenRequest.Unmarshal+Evaluate") }
func FuzzRequest5(f *testing.F)       { fuzzTarget(f, "type5.TokenRequest.Unmarshal+Evaluate") }
func FuzzRequest3(f *testing.F)       { fuzzTarget(f, "type3.TokenRequest.Unmarshal") }
func FuzzInner(f *testing.F)          { fuzzTarget(f, "type3.InnerTokenRequest.Unmarshal") }
func FuzzEncapKey(f *testing.F)       { fuzzTarget(f, "type3.UnmarshalEncapKey") }
func FuzzBatchRequest(f *testing.F)   { fuzzTarget(f, "batched.TokenRequest.Unmarshal+EvaluateBatch") }
func FuzzBatchResponse(f *testing.F) {
	fuzzTarget(f, "batched.UnmarshalBatchedTokenResponses+Finalize")
}
func FuzzTokenKey(f *testing.F)            { fuzzTarget(f, "util.UnmarshalTokenKey") }
func FuzzFinalize1(f *testing.F)           { fuzzTarget(f, "type1.FinalizeToken") }
func FuzzFinalize2(f *testing.F)           { fuzzTarget(f, "type2.FinalizeToken") }
func FuzzFinalize3(f *testing.F)           { fuzzTarget(f, "type3.FinalizeToken") }
func FuzzFinalize5(f *testing.F)           { fuzzTarget(f, "type5.FinalizeTokens") }
func FuzzIssuer3(f *testing.F)             { fuzzTarget(f, "type3.RateLimitedIssuer.Evaluate") }
func FuzzVerifyRequest(f *testing.F)       { fuzzTarget(f, "type3.Attester.VerifyRequest") }
func FuzzIssuer3Signed(f *testing.F)       { fuzzTarget(f, "type3.RateLimitedIssuer.Evaluate+signed") }
func FuzzVerifyRequestSigned(f *testing.F) { fuzzTarget(f, "type3.Attester.VerifyRequest+signed") }
func FuzzVerifyThenFinalizeIndex(f *testing.F) {
	fuzzTarget(f, "type3.Attester.VerifyRequest+FinalizeIndex")
}
func FuzzFinalizeIndex(f *testing.F) { fuzzTarget(f, "type3.Attester.FinalizeIndex") }
func FuzzVerifyASN1(f *testing.F)    { fuzzTarget(f, "ecdsa.VerifyASN1") }
func FuzzEcdsaVerify(f *testing.F)   { fuzzTarget(f, "ecdsa.Verify") }
func FuzzEd25519Verify(f *testing.F) { fuzzTarget(f, "ed25519.Verify") }
func FuzzQuicwire(f *testing.F)      { fuzzTarget(f, "quicwire.Consume*") }
