// C03 — no byte string from a peer can crash or exhaust a decoder or protocol step.
package c03

import (
	"bufio"
	"bytes"
	"fmt"
	"io"
	"os"
	"strconv"
	"strings"
	"testing"

	"github.com/cloudflare/pat-go/tokens/type3"
	"pgregory.net/rapid"

	"verifharness/internal/gen"
	"verifharness/internal/rt"
)

func TestMain(m *testing.M) { rt.Main(m) }

const oracle = "oracle: the call returns without panic, allocates at most 8 MiB + 1024 x len(input) (runtime.MemStats.TotalAlloc delta), and the worker process survives (in-flight record + fresh-process confirmation otherwise)"

// TestPrefixesAndExtensions: every prefix of every valid message, for every target (exhaustive per message).
func TestPrefixesAndExtensions(t *testing.T) {
	s := rt.S("prefixes").SetRule("every proper prefix of each target's valid corpus message, and the message extended by 1..3 bytes; " + oracle + "; non-trivial = input differs from the valid message; distinct by (target, input)")
	for _, tg := range allTargets() {
		for _, seed := range tg.seeds {
			for cut := 0; cut <= len(seed); cut++ {
				s.Eval()
				if err := checkInput(tg, seed[:cut], true); err != nil {
					rt.Report(t, sigOf(err), tg.name, seed[:cut], "%v", err)
				}
				if cut < len(seed) {
					s.Nontrivial([]byte(tg.name), seed[:cut])
				}
			}
			for _, ext := range [][]byte{{0}, {0xff}, {0, 0, 0}, {0xc0, 0xff, 0xff}} {
				s.Eval()
				in := append(append([]byte{}, seed...), ext...)
				if err := checkInput(tg, in, true); err != nil {
					rt.Report(t, sigOf(err), tg.name, in, "%v", err)
				}
				s.Nontrivial([]byte(tg.name), in)
			}
		}
	}
	s.MarkExhaustive("every prefix of each target's corpus message")
	s.Sample(func() any { return "prefixes of: " + rt.Hex(theWorld().req5) })
	rt.InflightDone()
}

// TestHostileLengthFields: every hostile value in every encoding over every tag/length offset of every target (exhaustive product).
func TestHostileLengthFields(t *testing.T) {
	s := rt.S("hostile-length-fields").SetRule("product of: target x offset of each tag/length/count field of its valid message x value in {0,1,..,2^30-1,2^30,2^31,2^32,2^33,2^35,2^40,2^62-1} x encoding (uint8, uint16, 1/2/4/8-byte varint), written over the field and, separately, inserted before it; " + oracle + "; non-trivial = every input; distinct by (target, input)")
	for _, tg := range allTargets() {
		offsets := append([]int{}, tg.fields...)
		if len(offsets) == 0 {
			offsets = []int{0, 1, 2}
		}
		for _, seed := range tg.seeds {
			for _, off := range offsets {
				if off > len(seed) {
					continue
				}
				for _, v := range gen.HostileLens() {
					for _, enc := range gen.LengthEncodings(v) {
						over := append(append([]byte{}, seed[:off]...), enc...)
						if off+len(enc) < len(seed) {
							over = append(over, seed[off+len(enc):]...)
						}
						ins := append(append(append([]byte{}, seed[:off]...), enc...), seed[off:]...)
						for _, in := range [][]byte{over, ins} {
							s.Eval()
							s.Nontrivial([]byte(tg.name), in)
							if err := checkInput(tg, in, true); err != nil {
								rt.Report(t, sigOf(err), tg.name, in, "%v", err)
							}
						}
					}
				}
			}
		}
	}
	s.MarkExhaustive("hostile values x encodings x field offsets per target")
	s.Sample(func() any { return map[string]any{"values": gen.HostileLens()} })
	rt.InflightDone()
}

func sigOf(err error) string {
	f := strings.Fields(err.Error())
	if len(f) > 0 && strings.HasPrefix(f[0], "C03/") {
		return f[0]
	}
	return "C03/unknown"
}

// TestAllShortStrings: every byte string of length <= 2 for the cheap decoders (exhaustive).
func TestAllShortStrings(t *testing.T) {
	s := rt.S("short-strings").SetRule("every byte string of length <= 2 into every microsecond-cost decoder target (and length <= 1 into protocol-step targets); panics only (inputs this short cannot announce more than 16383 bytes); non-trivial = non-empty input; distinct by construction")
	var cnt int64
	buf := make([]byte, 2)
	for _, tg := range allTargets() {
		maxLen := 2
		if tg.heavy {
			maxLen = 1
		}
		for l := 0; l <= maxLen; l++ {
			for x := 0; x < 1<<(8*l); x++ {
				if !rt.Mine(x) {
					continue
				}
				for i := 0; i < l; i++ {
					buf[i] = byte(x >> (8 * (l - 1 - i)))
				}
				cnt++
				if err := checkInput(tg, buf[:l], false); err != nil {
					rt.Report(t, sigOf(err), tg.name, buf[:l], "%v", err)
				}
			}
		}
	}
	s.EvalN(cnt)
	s.NontrivialEnum(cnt - int64(len(allTargets())))
	s.MarkExhaustive("all byte strings of length <= 2 per decoder target")
	s.Sample(func() any { return "00, 01, ..., ffff into each decoder" })
	rt.InflightDone()
}

func drawInput(t *rapid.T, tg *target) ([]byte, string) {
	seed := gen.Pick(t, tg.seeds, "seed")
	var others [][]byte
	x := theWorld()
	others = append(others, x.req1, x.req5, x.resp5, x.respB, x.reqB, x.challenge)
	if tg.layout != nil && rapid.Bool().Draw(t, "reframe") {
		return gen.MutateParts(t, tg.layout(seed), others)
	}
	if tg.packed > 0 && rapid.Bool().Draw(t, "perArg") {
		// mutate one argument and re-pack, so that the mutation reaches the function's own parsing
		args := split(seed, tg.packed)
		i := gen.Uniform(t, tg.packed, "arg")
		var m []byte
		var class string
		if i == 0 && tg.name == "type3.Attester.VerifyRequest" && rapid.Bool().Draw(t, "reframe") {
			m, class = gen.MutateParts(t, layoutType3Request(args[0]), others)
		} else {
			m, class = gen.Mutate(t, args[i], others, []int{0, 1, 2, 3, 4})
		}
		if len(m) > 65535 {
			m = m[:65535]
		}
		args[i] = m
		return pack(args...), "arg:" + class
	}
	return gen.Mutate(t, seed, others, tg.fields)
}

func mutationTest(t *testing.T, heavy bool, quick, thorough int) {
	name := map[bool]string{false: "mutations/decoders", true: "mutations/protocol-steps"}[heavy]
	s := rt.S(name).SetRule("structure-aware mutation of a valid message (truncate, extend, bit flip, byte set, splice, hostile values incl. 2^30..2^62-1 written over length fields in every varint width, chunk insert/delete, random bytes, compositions); " + oracle + "; non-trivial = input differs from every corpus message; distinct by (target, input)")
	var tgs []*target
	for _, tg := range allTargets() {
		if tg.heavy == heavy {
			tgs = append(tgs, tg)
		}
	}
	rt.Check(t, quick, thorough, func(t *rapid.T) {
		tg := gen.Pick(t, tgs, "target")
		in, class := drawInput(t, tg)
		s.Eval()
		s.Class(class)
		s.Class("target:" + tg.name)
		if err := checkInput(tg, in, true); err != nil {
			rt.Fail(t, sigOf(err), "%v", err)
			return
		}
		trivial := false
		for _, sd := range tg.seeds {
			trivial = trivial || bytes.Equal(sd, in)
		}
		if !trivial {
			s.Nontrivial([]byte(tg.name), in)
		}
		s.Sample(func() any { return map[string]any{"target": tg.name, "class": class, "input": rt.Hex(in)} })
	})
	rt.InflightDone()
}

func TestMutationsDecoders(t *testing.T)      { mutationTest(t, false, 40000, 2000000) }
func TestMutationsProtocolSteps(t *testing.T) { mutationTest(t, true, 6000, 400000) }

// TestReplayInflight re-runs exactly one recorded (target, input) pair: the
// driver uses it to confirm, in a fresh process, that an input kills a worker.
func TestReplayInflight(t *testing.T) {
	path := os.Getenv("VERIF_INFLIGHT_REPLAY")
	if path == "" {
		t.Skip("no in-flight record given")
	}
	f, err := os.Open(path)
	if err != nil {
		t.Fatal(err)
	}
	defer f.Close()
	r := bufio.NewReader(f)
	name, _ := r.ReadString('\n')
	lenLine, _ := r.ReadString('\n')
	n, err := strconv.Atoi(strings.TrimSpace(lenLine))
	if err != nil {
		t.Fatalf("bad record: %v", err)
	}
	in := make([]byte, n)
	if _, err := io.ReadFull(r, in); err != nil {
		t.Fatalf("bad record: %v", err)
	}
	tg := targetByName(strings.TrimSpace(name))
	if tg == nil {
		t.Fatalf("unknown target %q", name)
	}
	if err := checkInput(tg, in, true); err != nil {
		t.Fatal(err)
	}
	fmt.Println("in-flight case survived")
}

// TestResignHealth: the harness-side re-signing used by the "+signed" targets produces signatures the code accepts
// (otherwise those targets would silently test nothing beyond the plain ones).
func TestResignHealth(t *testing.T) {
	x := theWorld()
	for i, req := range append([][]byte{x.req3}, x.req3Variants[:5]...) {
		if _, _, err := x.iss3.Evaluate(resign(req, x.blindedSigner, false)); err != nil {
			t.Fatalf("harness health: issuer refuses honest request %d re-signed with the client's blinded key: %v", i, err)
		}
	}
	r := new(type3.RateLimitedTokenRequest)
	if !r.Unmarshal(resign(x.req3, x.blindedSigner, false)) {
		t.Fatal("harness health: re-signed request does not decode")
	}
	att := type3.NewRateLimitedAttester(&memCache{m: map[string]*type3.ClientState{}})
	if err := att.VerifyRequest(*r, x.blind3, x.client3, x.anon); err != nil {
		t.Fatalf("harness health: attester refuses the re-signed honest request: %v", err)
	}
	// the harness-sealed request of the sequence target is one the issuer serves
	if _, _, err := x.iss3seq.Evaluate(targetByName("type3.Issuer.Evaluate;AddOrigin;Evaluate").seeds[0]); err != nil {
		t.Fatalf("harness health: issuer refuses the request sealed and signed by the harness: %v", err)
	}
	// with the key replaced by the harness key the signature must still pass: the failure has to come from decryption
	if _, _, err := x.iss3.Evaluate(resign(x.req3, x.ownKey, true)); err == nil || strings.Contains(err.Error(), "signature") {
		t.Fatalf("harness health: request re-signed under the harness key: got %v, expected a decryption failure", err)
	}
}
