// Package c03: every function that consumes bytes received from a peer, as a
// table of byte-string targets. Multi-argument functions take their arguments
// packed as a sequence of uint16-length-prefixed strings (see split).
package c03

import (
	"bytes"
	stdecdsa "crypto/ecdsa"
	"crypto/elliptic"
	"crypto/rand"
	"crypto/sha256"
	"crypto/sha512"
	"fmt"
	hpke "github.com/cisco/go-hpke"
	"math/big"
	"sync"

	"github.com/cloudflare/circl/oprf"
	patecdsa "github.com/cloudflare/pat-go/ecdsa"
	pated "github.com/cloudflare/pat-go/ed25519"
	"github.com/cloudflare/pat-go/quicwire"
	"github.com/cloudflare/pat-go/tokens"
	"github.com/cloudflare/pat-go/tokens/batched"
	"github.com/cloudflare/pat-go/tokens/type1"
	"github.com/cloudflare/pat-go/tokens/type2"
	"github.com/cloudflare/pat-go/tokens/type3"
	"github.com/cloudflare/pat-go/tokens/type5"
	"github.com/cloudflare/pat-go/util"

	"verifharness/internal/gen"
	"verifharness/internal/ref"
	"verifharness/internal/rt"
)

type target struct {
	name   string
	heavy  bool // protocol step costing milliseconds
	packed int  // >0: input is that many uint16-length-prefixed arguments
	fields []int
	run    func(in []byte)
	seeds  [][]byte
	layout func(seed []byte) []gen.Part // field structure of a valid message, for consistent re-framing
}

func fixedParts(b []byte, cuts ...int) []gen.Part {
	var out []gen.Part
	prev := 0
	for _, c := range cuts {
		out = append(out, gen.Part{Kind: 0, Data: b[prev:c]})
		prev = c
	}
	return append(out, gen.Part{Kind: 0, Data: b[prev:]})
}

func layoutType3Request(b []byte) []gen.Part {
	n := int(b[83])<<8 | int(b[84])
	return []gen.Part{{Kind: 0, Data: b[:2]}, {Kind: 0, Data: b[2:51]}, {Kind: 0, Data: b[51:83]}, {Kind: 2, Data: b[85 : 85+n]}, {Kind: 0, Data: b[85+n:]}}
}

func layoutVarintThenRest(skip int) func(b []byte) []gen.Part {
	return func(b []byte) []gen.Part {
		l, n, _ := ref.VarintDecode(b[skip:])
		ps := []gen.Part{}
		if skip > 0 {
			ps = append(ps, fixedParts(b[:skip], 2)...)
		}
		ps = append(ps, gen.Part{Kind: 3, Data: b[skip+n : skip+n+int(l)]})
		if rest := b[skip+n+int(l):]; len(rest) > 0 {
			ps = append(ps, gen.Part{Kind: 0, Data: rest})
		}
		return ps
	}
}

func layoutChallenge(b []byte) []gen.Part {
	p := 2
	n1 := int(b[p])<<8 | int(b[p+1])
	issuer := b[p+2 : p+2+n1]
	p += 2 + n1
	n2 := int(b[p])
	nonce := b[p+1 : p+1+n2]
	p += 1 + n2
	n3 := int(b[p])<<8 | int(b[p+1])
	return []gen.Part{{Kind: 0, Data: b[:2]}, {Kind: 2, Data: issuer}, {Kind: 1, Data: nonce}, {Kind: 2, Data: b[p+2 : p+2+n3]}}
}

// pack encodes arguments as uint16-length-prefixed strings.
func pack(args ...[]byte) []byte {
	var out []byte
	for _, a := range args {
		out = append(out, byte(len(a)>>8), byte(len(a)))
		out = append(out, a...)
	}
	return out
}

// split is total: missing or overlong arguments come out as what is there (possibly empty).
func split(in []byte, n int) [][]byte {
	out := make([][]byte, n)
	for i := 0; i < n; i++ {
		if len(in) < 2 {
			out[i] = append([]byte{}, in...)
			in = nil
			continue
		}
		l := int(in[0])<<8 | int(in[1])
		in = in[2:]
		if l > len(in) {
			l = len(in)
		}
		out[i] = append([]byte{}, in[:l]...) // private copy with exact capacity
		in = in[l:]
	}
	return out
}

// exact returns a copy whose capacity equals its length, so that reads beyond
// len fault instead of silently landing in spare capacity.
func exact(b []byte) []byte { return append(make([]byte, 0, len(b)), b...) }

// ---------------------------------------------------------------- fixed world

type world struct {
	k1, k5      *oprf.PrivateKey
	iss1        *type1.BasicPrivateIssuer
	iss2        *type2.BasicPublicIssuer
	iss5        *type5.BatchedPrivateIssuer
	iss3        *type3.RateLimitedIssuer
	batchIssuer *batched.BasicBatchedIssuer
	attester    *type3.RateLimitedAttester

	st1 type1.BasicPrivateTokenRequestState
	st2 type2.BasicPublicTokenRequestState
	st3 type3.RateLimitedTokenRequestState
	st5 type5.BatchedPrivateTokenRequestState
	// batch of [type1, type2] states
	bst1 type1.BasicPrivateTokenRequestState
	bst2 type2.BasicPublicTokenRequestState

	req3Variants                         [][]byte // honest requests for the empty origin, 31/32/33/64-byte origins, an unregistered origin
	req1, req2, req3, req5, reqB         []byte
	reqBMany                             [][]byte // batches with many failing entries
	resp1, resp2, resp3, resp5, respB    []byte
	tok1, tok2, tok3, tok5               []byte
	challenge, encap, inner, spki        []byte
	blind3, client3, anon, blindedReqKey []byte
	ecPub                                *patecdsa.PublicKey
	ecHash, ecSigASN1, ecR, ecS          []byte
	edPub, edMsg, edSig                  []byte
	ownKey, blindedSigner                *stdecdsa.PrivateKey     // a key of the harness; the world client's blinded signing key d*r
	iss3seq                              *type3.RateLimitedIssuer // the issuer of the sequence target (origins are added to it as the test runs)
	req3seq                              []byte
}

// sealedRequest builds a type-3 request whose inner request is correctly HPKE-sealed to the issuer's published name key
// for the given (request key, origin), signed by signer (harness-side go-hpke and crypto/ecdsa; nothing of pat-go's
// client). With a request key that is no curve point the issuer gets past decryption and meets the bad key afterwards.
func sealedRequest(nameKeyEnc, requestKey []byte, tokenKeyID byte, origin string, signer *stdecdsa.PrivateKey) []byte {
	su, err := hpke.AssembleCipherSuite(hpke.DHKEM_X25519, hpke.KDF_HKDF_SHA256, hpke.AEAD_AESGCM128)
	must(err)
	pk, err := su.KEM.DeserializePublicKey(nameKeyEnc[3:35])
	must(err)
	enc, ctx, err := hpke.SetupBaseS(su, rt.NewDRBG(append([]byte("sealed request "), requestKey...)), pk, []byte("TokenRequest"))
	must(err)
	nkid := sha256.Sum256(nameKeyEnc)
	aad := []byte{nameKeyEnc[0], 0x00, 0x20, 0x00, 0x01, 0x00, 0x01, 0x00, 0x03}
	aad = append(append(aad, requestKey...), nkid[:]...)
	padded := make([]byte, 32*((len(origin)+31)/32))
	if len(origin) == 0 {
		padded = make([]byte, 32)
	}
	copy(padded, origin)
	inner := ref.EncodeInnerRequest(tokenKeyID, bytes.Repeat([]byte{0x01}, 256), padded)
	ct := append(enc, ctx.Seal(aad, inner)...)
	msg := ref.EncodeRateLimitedRequest(requestKey, nkid[:], ct, nil)
	dg := sha512.Sum384(msg)
	r, sv, err := stdecdsa.Sign(rt.NewDRBG(dg[:]), signer, dg[:])
	must(err)
	sig := make([]byte, 96)
	r.FillBytes(sig[:48])
	sv.FillBytes(sig[48:])
	return append(msg, sig...)
}

// resign returns the input with a fresh, valid request signature if it has the shape of a type-3 request
// (type, 49-byte key, 32-byte key id, length-prefixed ciphertext, anything after it), otherwise the input itself.
// With replaceKey the request key field becomes the signer's compressed public key.
func resign(in []byte, signer *stdecdsa.PrivateKey, replaceKey bool) []byte {
	if len(in) < 85 {
		return in
	}
	n := int(in[83])<<8 | int(in[84])
	if 85+n > len(in) {
		return in
	}
	msg := append([]byte{}, in[:85+n]...)
	if replaceKey {
		copy(msg[2:51], elliptic.MarshalCompressed(elliptic.P384(), signer.X, signer.Y))
	}
	dg := sha512.Sum384(msg)
	r, s, err := stdecdsa.Sign(rt.NewDRBG(dg[:]), signer, dg[:])
	if err != nil {
		return in
	}
	sig := make([]byte, 96)
	r.FillBytes(sig[:48])
	s.FillBytes(sig[48:])
	return append(msg, sig...)
}

type memCache struct{ m map[string]*type3.ClientState }

func (c *memCache) Get(id string) (*type3.ClientState, bool) { s, ok := c.m[id]; return s, ok }
func (c *memCache) Put(id string, s *type3.ClientState)      { c.m[id] = s }

var (
	worldOnce sync.Once
	w         *world
)

func must(err error) {
	if err != nil {
		panic(err)
	}
}

// theWorld builds one honest run per protocol from fixed seeds (independent of
// rapid, so that a recorded (target, input) pair replays in a fresh process).
func theWorld() *world {
	worldOnce.Do(func() {
		defer rt.Entropy([]byte("c03 world"))()
		// each block gets its own stream, so that ecdsa.MaybeReadByte's coin (which shifts a
		// stream by one byte) cannot make later blocks differ between processes
		reseed := func(label string) { rand.Reader = rt.NewDRBG([]byte("c03 world " + label)) }
		x := &world{}
		x.k1 = gen.OPRFKey(oprf.SuiteP384, []byte("c03 type1 key"))
		x.k5 = gen.OPRFKey(oprf.SuiteRistretto255, []byte("c03 type5 key"))
		rsaKey := gen.RSAPool()[0]
		x.iss1 = type1.NewBasicPrivateIssuer(x.k1)
		x.iss2 = type2.NewBasicPublicIssuer(rsaKey)
		x.iss5 = type5.NewBatchedPrivateIssuer(x.k5)
		x.iss3 = type3.NewRateLimitedIssuer(gen.RSAPool()[1])
		must(x.iss3.AddOrigin("origin.example"))
		must(x.iss3.AddOrigin(""))
		x.batchIssuer = batched.NewBasicBatchedIssuer(b1{x.iss1}, b2{x.iss2})
		x.attester = type3.NewRateLimitedAttester(&memCache{m: map[string]*type3.ClientState{}})
		chal := sha256.Sum256([]byte("challenge"))
		nonce := sha256.Sum256([]byte("nonce"))
		var err error

		reseed("1")
		x.st1, err = type1.NewBasicPrivateClient().CreateTokenRequest(chal[:], nonce[:], x.iss1.TokenKeyID(), x.iss1.TokenKey())
		must(err)
		x.req1 = x.st1.Request().Marshal()
		x.resp1, err = x.iss1.Evaluate(x.st1.Request())
		must(err)
		t1, err := x.st1.FinalizeToken(x.resp1)
		must(err)
		x.tok1 = t1.Marshal()

		reseed("2")
		x.st2, err = type2.NewBasicPublicClient().CreateTokenRequest(chal[:], nonce[:], x.iss2.TokenKeyID(), x.iss2.TokenKey())
		must(err)
		x.req2 = x.st2.Request().Marshal()
		x.resp2, err = x.iss2.Evaluate(x.st2.Request())
		must(err)
		t2, err := x.st2.FinalizeToken(x.resp2)
		must(err)
		x.tok2 = t2.Marshal()

		reseed("5")
		x.st5, err = type5.NewBatchedPrivateClient().CreateTokenRequest(chal[:], [][]byte{nonce[:], chal[:], nonce[:]}, x.iss5.TokenKeyID(), x.iss5.TokenKey())
		must(err)
		x.req5 = x.st5.Request().Marshal()
		x.resp5, err = x.iss5.Evaluate(x.st5.Request())
		must(err)
		t5, err := x.st5.FinalizeTokens(x.resp5)
		must(err)
		x.tok5 = t5[0].Marshal()

		n := elliptic.P384().Params().N
		sec := new(big.Int).Mod(new(big.Int).SetBytes(sha512.New().Sum([]byte("client secret"))), n).Bytes()
		bl := new(big.Int).Mod(new(big.Int).SetBytes(sha512.New().Sum([]byte("request blind"))), n).Bytes()
		x.blind3 = bl
		{
			own := new(big.Int).Mod(new(big.Int).SetBytes(sha512.New().Sum([]byte("harness key"))), n)
			ox, oy := elliptic.P384().ScalarBaseMult(own.Bytes())
			x.ownKey = &stdecdsa.PrivateKey{PublicKey: stdecdsa.PublicKey{Curve: elliptic.P384(), X: ox, Y: oy}, D: own}
			db := new(big.Int).Mul(new(big.Int).SetBytes(sec), ref.ECDSABlindScalar(elliptic.P384(), new(big.Int).SetBytes(bl), ref.ClientBlindCtx))
			db.Mod(db, n)
			bx, by := elliptic.P384().ScalarBaseMult(db.Bytes())
			x.blindedSigner = &stdecdsa.PrivateKey{PublicKey: stdecdsa.PublicKey{Curve: elliptic.P384(), X: bx, Y: by}, D: db}
		}
		reseed("3")
		x.st3, err = type3.NewRateLimitedClientFromSecret(sec).CreateTokenRequest(chal[:], nonce[:], bl, x.iss3.TokenKeyID(), x.iss3.TokenKey(), "origin.example", x.iss3.NameKey())
		must(err)
		x.req3 = x.st3.Request().Marshal()
		x.client3 = x.st3.ClientKey()
		x.anon = chal[:]
		must(x.attester.VerifyRequest(*x.st3.Request(), x.blind3, x.client3, x.anon))
		x.resp3, x.blindedReqKey, err = x.iss3.Evaluate(x.req3)
		must(err)
		t3, err := x.st3.FinalizeToken(x.resp3)
		must(err)
		x.tok3 = t3.Marshal()
		// more honest type-3 requests: what lies behind the AEAD cannot be reached by mutating bytes, so the
		// interesting plaintexts (empty origin = all-zero padding, names filling whole blocks, an unknown origin)
		// are produced by the honest client
		for _, o := range []string{"", string(bytes.Repeat([]byte{'a'}, 31)), string(bytes.Repeat([]byte{'b'}, 32)), string(bytes.Repeat([]byte{'c'}, 33)), string(bytes.Repeat([]byte{'d'}, 64)), "unregistered.example"} {
			if o != "unregistered.example" {
				must(x.iss3.AddOrigin(o))
			}
			reseed("3v" + o)
			stv, err := type3.NewRateLimitedClientFromSecret(sec).CreateTokenRequest(chal[:], nonce[:], bl, x.iss3.TokenKeyID(), x.iss3.TokenKey(), o, x.iss3.NameKey())
			must(err)
			x.req3Variants = append(x.req3Variants, append([]byte{}, stv.Request().Marshal()...))
		}
		x.encap = x.iss3.NameKey().Marshal()
		reseed("3seq")
		x.iss3seq = type3.NewRateLimitedIssuer(gen.RSAPool()[1])
		must(x.iss3seq.AddOrigin("origin.example"))
		stq, err := type3.NewRateLimitedClientFromSecret(sec).CreateTokenRequest(chal[:], nonce[:], bl, x.iss3seq.TokenKeyID(), x.iss3seq.TokenKey(), "origin.example", x.iss3seq.NameKey())
		must(err)
		x.req3seq = append([]byte{}, stq.Request().Marshal()...)
		x.inner = ref.EncodeInnerRequest(7, x.req2[3:], make([]byte, 32))

		reseed("b")
		x.bst1, err = type1.NewBasicPrivateClient().CreateTokenRequest(chal[:], nonce[:], x.iss1.TokenKeyID(), x.iss1.TokenKey())
		must(err)
		x.bst2, err = type2.NewBasicPublicClient().CreateTokenRequest(chal[:], nonce[:], x.iss2.TokenKeyID(), x.iss2.TokenKey())
		must(err)
		br, err := batched.NewBasicClient().CreateTokenRequest([]tokens.TokenRequestWithDetails{x.bst1.Request(), x.bst2.Request()})
		must(err)
		x.reqB = br.Marshal()
		// batches in which MANY entries fail (well-formed requests the issuers refuse): 70 and 300 type-1 requests with
		// the right key id and an element that is no curve point, and the same with unknown key ids, each followed by one good request
		for _, n := range []int{70, 300} {
			for _, unknownKey := range []bool{false, true} {
				var body []byte
				for i := 0; i < n; i++ {
					bad := append([]byte{}, x.bst1.Request().Marshal()...)
					for j := 4; j < len(bad); j++ {
						bad[j] = 0xff
					}
					if unknownKey {
						bad[2] ^= byte(1 + i%200)
					}
					body = append(body, bad...)
				}
				body = append(body, x.bst1.Request().Marshal()...)
				x.reqBMany = append(x.reqBMany, ref.EncodeBatchRequest([][]byte{body}))
			}
		}
		x.respB, err = x.batchIssuer.EvaluateBatch(br)
		must(err)

		x.challenge = tokens.TokenChallenge{TokenType: 2, IssuerName: "issuer.example", RedemptionNonce: nonce[:], OriginInfo: []string{"a.example", "b.example"}}.Marshal()
		x.spki, err = util.MarshalTokenKeyPSSOID(&rsaKey.PublicKey)
		must(err)

		ek, err := patecdsa.GenerateKey(elliptic.P384(), rt.NewDRBG([]byte("ec key")))
		must(err)
		x.ecPub = &ek.PublicKey
		x.ecHash = chal[:]
		x.ecSigASN1, err = patecdsa.SignASN1(rt.NewDRBG([]byte("ec sig")), ek, x.ecHash)
		must(err)
		r, s, err := patecdsa.Sign(rt.NewDRBG([]byte("ec sig2")), ek, x.ecHash)
		must(err)
		x.ecR, x.ecS = r.Bytes(), s.Bytes()
		edk := pated.NewKeyFromSeed(chal[:])
		x.edPub = edk.Public().(pated.PublicKey)
		x.edMsg = []byte("message")
		x.edSig = pated.Sign(edk, x.edMsg)
		w = x
	})
	return w
}

// adapters for the generic batch issuer (as in the repository's own tests)
type b1 struct{ i *type1.BasicPrivateIssuer }

func (b b1) Evaluate(r tokens.TokenRequest) ([]byte, error) {
	q, ok := r.(*type1.BasicPrivateTokenRequest)
	if !ok {
		return nil, fmt.Errorf("type mismatch")
	}
	return b.i.Evaluate(q)
}
func (b b1) TokenKeyID() []byte { return b.i.TokenKeyID() }
func (b b1) Type() uint16       { return 1 }

type b2 struct{ i *type2.BasicPublicIssuer }

func (b b2) Evaluate(r tokens.TokenRequest) ([]byte, error) {
	q, ok := r.(*type2.BasicPublicTokenRequest)
	if !ok {
		return nil, fmt.Errorf("type mismatch")
	}
	return b.i.Evaluate(q)
}
func (b b2) TokenKeyID() []byte { return b.i.TokenKeyID() }
func (b b2) Type() uint16       { return 2 }

// ---------------------------------------------------------------- the table

var (
	targetsOnce sync.Once
	targets     []*target
)

func allTargets() []*target {
	targetsOnce.Do(func() {
		x := theWorld()
		add := func(t *target) { targets = append(targets, t) }

		add(&target{name: "UnmarshalTokenChallenge", fields: []int{0, 1, 2, 3}, seeds: [][]byte{x.challenge}, layout: layoutChallenge,
			run: func(in []byte) {
				if c, err := tokens.UnmarshalTokenChallenge(in); err == nil {
					_ = c.Marshal()
				}
			}})
		add(&target{name: "type1.UnmarshalPrivateToken+Verify", heavy: true, seeds: [][]byte{x.tok1},
			run: func(in []byte) {
				if tok, err := type1.UnmarshalPrivateToken(in); err == nil {
					_ = x.iss1.Verify(tok)
					_ = tok.Marshal()
				}
			}})
		add(&target{name: "type2.UnmarshalToken", seeds: [][]byte{x.tok2},
			run: func(in []byte) {
				if tok, err := type2.UnmarshalToken(in); err == nil {
					_ = tok.Marshal()
				}
			}})
		add(&target{name: "type3.UnmarshalToken", seeds: [][]byte{x.tok3},
			run: func(in []byte) {
				if tok, err := type3.UnmarshalToken(in); err == nil {
					_ = tok.Marshal()
				}
			}})
		add(&target{name: "type5.UnmarshalBatchedPrivateToken+Verify", heavy: true, seeds: [][]byte{x.tok5},
			run: func(in []byte) {
				if tok, err := type5.UnmarshalBatchedPrivateToken(in); err == nil {
					_ = x.iss5.Verify(tok)
					_ = tok.Marshal()
				}
			}})
		add(&target{name: "type1.TokenRequest.Unmarshal+Evaluate", heavy: true, fields: []int{0, 1, 2}, seeds: [][]byte{x.req1},
			run: func(in []byte) {
				r := new(type1.BasicPrivateTokenRequest)
				if r.Unmarshal(in) {
					_ = r.Marshal()
					_, _ = x.iss1.Evaluate(r)
				}
			}})
		add(&target{name: "type2.TokenRequest.Unmarshal+Evaluate", heavy: true, fields: []int{0, 1, 2}, seeds: [][]byte{x.req2},
			run: func(in []byte) {
				r := new(type2.BasicPublicTokenRequest)
				if r.Unmarshal(in) {
					_ = r.Marshal()
					_, _ = x.iss2.Evaluate(r)
				}
			}})
		add(&target{name: "type5.TokenRequest.Unmarshal+Evaluate", heavy: true, fields: []int{0, 1, 2, 3, 4}, seeds: [][]byte{x.req5}, layout: layoutVarintThenRest(3),
			run: func(in []byte) {
				r := new(type5.BatchedPrivateTokenRequest)
				if r.Unmarshal(in) {
					_ = r.Marshal()
					_, _ = x.iss5.Evaluate(r)
				}
			}})
		add(&target{name: "type3.TokenRequest.Unmarshal", fields: []int{0, 1, 83, 84}, seeds: [][]byte{x.req3}, layout: layoutType3Request,
			run: func(in []byte) {
				r := new(type3.RateLimitedTokenRequest)
				if r.Unmarshal(in) {
					_ = r.Marshal()
				}
			}})
		add(&target{name: "type3.InnerTokenRequest.Unmarshal", fields: []int{0, 257, 258}, seeds: [][]byte{x.inner},
			layout: func(b []byte) []gen.Part {
				return []gen.Part{{Kind: 0, Data: b[:1]}, {Kind: 0, Data: b[1:257]}, {Kind: 2, Data: b[259:]}}
			},
			run: func(in []byte) {
				r := new(type3.InnerTokenRequest)
				if r.Unmarshal(in) {
					_ = r.Marshal()
				}
			}})
		add(&target{name: "type3.UnmarshalEncapKey", fields: []int{0, 1, 2, 35, 36, 37, 38}, seeds: [][]byte{x.encap},
			layout: func(b []byte) []gen.Part { return fixedParts(b, 1, 3, 35, 37) },
			run: func(in []byte) {
				if k, err := type3.UnmarshalEncapKey(in); err == nil {
					_ = k.Marshal()
				}
			}})
		add(&target{name: "batched.TokenRequest.Unmarshal+EvaluateBatch", heavy: true, fields: []int{0, 1, 2, 3, 4, 54, 55, 56}, seeds: append([][]byte{x.reqB}, x.reqBMany...), layout: layoutVarintThenRest(0),
			run: func(in []byte) {
				r := new(batched.BatchedTokenRequest)
				if r.Unmarshal(in) {
					_ = r.Marshal()
					_, _ = x.batchIssuer.EvaluateBatch(r)
				}
			}})
		add(&target{name: "batched.UnmarshalBatchedTokenResponses+Finalize", heavy: true, fields: []int{0, 1, 2, 3, 4, 5, 150, 151, 152}, seeds: [][]byte{x.respB}, layout: layoutVarintThenRest(0),
			run: func(in []byte) {
				if list, err := batched.UnmarshalBatchedTokenResponses(in); err == nil {
					if len(list) > 0 && len(list[0]) > 0 {
						_, _ = x.bst1.FinalizeToken(list[0])
					}
					if len(list) > 1 && len(list[1]) > 0 {
						_, _ = x.bst2.FinalizeToken(list[1])
					}
				}
			}})
		add(&target{name: "util.UnmarshalTokenKey", fields: []int{0, 1, 2, 3, 4, 5, 6, 7}, seeds: [][]byte{x.spki},
			run: func(in []byte) {
				if k, err := util.UnmarshalTokenKey(in); err == nil && k.N.BitLen() <= 8192 {
					_, _ = util.MarshalTokenKeyPSSOID(k)
				}
			}})
		add(&target{name: "type1.FinalizeToken", heavy: true, seeds: [][]byte{x.resp1},
			layout: func(b []byte) []gen.Part { return fixedParts(b, 49, 97) },
			run:    func(in []byte) { _, _ = x.st1.FinalizeToken(in) }})
		add(&target{name: "type2.FinalizeToken", heavy: true, seeds: [][]byte{x.resp2},
			run: func(in []byte) { _, _ = x.st2.FinalizeToken(in) }})
		add(&target{name: "type3.FinalizeToken", heavy: true, seeds: [][]byte{x.resp3},
			layout: func(b []byte) []gen.Part { return fixedParts(b, 16) },
			run:    func(in []byte) { _, _ = x.st3.FinalizeToken(in) }})
		add(&target{name: "type5.FinalizeTokens", heavy: true, fields: []int{0, 1, 2, 3}, seeds: [][]byte{x.resp5}, layout: layoutVarintThenRest(0),
			run: func(in []byte) { _, _ = x.st5.FinalizeTokens(in) }})
		add(&target{name: "type3.RateLimitedIssuer.Evaluate", heavy: true, fields: []int{0, 1, 83, 84}, seeds: append([][]byte{x.req3}, x.req3Variants...), layout: layoutType3Request,
			run: func(in []byte) { _, _, _ = x.iss3.Evaluate(in) }})
		// the same entry points behind the signature check: whatever has the SHAPE of a type-3 request is re-signed by
		// the harness before the code sees it (a sender can always sign its own bytes with its own key), so that the
		// mutations reach what runs after the signature check instead of all stopping at "invalid signature"
		add(&target{name: "type3.RateLimitedIssuer.Evaluate+signed", heavy: true, fields: []int{0, 1, 83, 84}, seeds: append([][]byte{x.req3}, x.req3Variants...), layout: layoutType3Request,
			run: func(in []byte) { _, _, _ = x.iss3.Evaluate(resign(in, x.ownKey, true)) }})
		add(&target{name: "type3.Attester.VerifyRequest+signed", heavy: true, packed: 4, fields: []int{0, 1, 2, 3, 85, 86},
			seeds: [][]byte{pack(x.req3, x.blind3, x.client3, x.anon)},
			run: func(in []byte) {
				a := split(in, 4)
				r := new(type3.RateLimitedTokenRequest)
				// signed with the genuine blinded key of the world's client: authentic as long as the request key survives
				if !r.Unmarshal(resign(a[0], x.blindedSigner, false)) {
					return
				}
				att := type3.NewRateLimitedAttester(&memCache{m: map[string]*type3.ClientState{}})
				_ = att.VerifyRequest(*r, a[1], a[2], a[3])
			}})
		// a SEQUENCE on one issuer: a peer's request, then the operator registers another origin, then an honest request. Whatever
		// the first request left behind (a lock, a half-updated table) shows in the calls that follow; a call that never
		// returns is caught by the in-flight watchdog and confirmed in a fresh process.
		{
			ownPub := elliptic.MarshalCompressed(elliptic.P384(), x.ownKey.X, x.ownKey.Y)
			notAPoint := append([]byte{0x02}, bytes.Repeat([]byte{0xff}, 48)...)
			nk := x.iss3seq.NameKey().Marshal()
			kid := x.iss3seq.TokenKeyID()[31]
			seqSeeds := [][]byte{
				sealedRequest(nk, ownPub, kid, "origin.example", x.ownKey),       // well-formed and correctly signed
				sealedRequest(nk, notAPoint, kid, "origin.example", x.ownKey),    // sealed for a request key that is no point
				sealedRequest(nk, ownPub, kid, "unregistered.example", x.ownKey), // unknown origin
				sealedRequest(nk, ownPub[:48], kid, "origin.example", x.ownKey),  // 48-byte request key
				sealedRequest(nk, ownPub, kid^0xff, "origin.example", x.ownKey),  // other token key id inside
				x.req3seq,
			}
			var late int
			add(&target{name: "type3.Issuer.Evaluate;AddOrigin;Evaluate", heavy: true, fields: []int{0, 1, 83, 84}, seeds: seqSeeds,
				run: func(in []byte) {
					iss := x.iss3seq
					_, _, _ = iss.Evaluate(in)
					late++
					_ = iss.AddOrigin(fmt.Sprintf("late-%d.example", late%512))
					_ = iss.OriginIndexKey("origin.example")
					if _, _, err := iss.Evaluate(x.req3seq); err != nil {
						panic(fmt.Sprintf("after a peer's request and AddOrigin, the issuer refuses an honest request: %v", err))
					}
				}})
		}
		add(&target{name: "type3.Attester.VerifyRequest", heavy: true, packed: 4, fields: []int{0, 1, 2, 3, 85, 86},
			seeds: [][]byte{pack(x.req3, x.blind3, x.client3, x.anon)},
			run: func(in []byte) {
				a := split(in, 4)
				r := new(type3.RateLimitedTokenRequest)
				if !r.Unmarshal(a[0]) { // the attester receives the request as bytes
					return
				}
				att := type3.NewRateLimitedAttester(&memCache{m: map[string]*type3.ClientState{}})
				_ = att.VerifyRequest(*r, a[1], a[2], a[3])
			}})
		add(&target{name: "type3.Attester.VerifyRequest+FinalizeIndex", heavy: true, packed: 5, fields: []int{0, 1, 2, 3, 85, 86},
			seeds: [][]byte{pack(x.req3, x.blind3, x.client3, x.anon, x.blindedReqKey)},
			run: func(in []byte) {
				// one attester sees the request check and then the index computation for the same client key,
				// whatever the check answered (a refused request must not leave anything behind that breaks the next call)
				a := split(in, 5)
				r := new(type3.RateLimitedTokenRequest)
				if !r.Unmarshal(a[0]) {
					return
				}
				att := type3.NewRateLimitedAttester(&memCache{m: map[string]*type3.ClientState{}})
				_ = att.VerifyRequest(*r, a[1], a[2], a[3])
				_, _ = att.FinalizeIndex(a[2], a[1], a[4], a[3])
			}})
		add(&target{name: "type3.Attester.FinalizeIndex", heavy: true, packed: 4, fields: []int{0, 1},
			seeds: [][]byte{pack(x.client3, x.blind3, x.blindedReqKey, x.anon)},
			run: func(in []byte) {
				a := split(in, 4)
				_, _ = x.attester.FinalizeIndex(a[0], a[1], a[2], a[3])
			}})
		add(&target{name: "ecdsa.VerifyASN1", heavy: true, packed: 2, fields: []int{0, 1, 34, 35, 36, 37, 38, 39},
			seeds: [][]byte{pack(x.ecHash, x.ecSigASN1)},
			run: func(in []byte) {
				a := split(in, 2)
				_ = patecdsa.VerifyASN1(x.ecPub, a[0], a[1])
			}})
		add(&target{name: "ecdsa.Verify", heavy: true, packed: 3, fields: []int{0, 1},
			seeds: [][]byte{pack(x.ecHash, x.ecR, x.ecS)},
			run: func(in []byte) {
				a := split(in, 3)
				_ = patecdsa.Verify(x.ecPub, a[0], new(big.Int).SetBytes(a[1]), new(big.Int).SetBytes(a[2]))
			}})
		add(&target{name: "ed25519.Verify", heavy: true, packed: 3, fields: []int{0, 1},
			seeds: [][]byte{pack(x.edPub, x.edMsg, x.edSig)},
			run: func(in []byte) {
				a := split(in, 3)
				key := make([]byte, 32) // the key length is the caller's contract (documented panic), its content is not
				copy(key, a[0])
				_ = pated.Verify(key, a[1], a[2])
			}})
		add(&target{name: "quicwire.Consume*", seeds: [][]byte{{0x05, 1, 2, 3, 4, 5}, {0x40, 0x05, 1, 2, 3, 4, 5}, {0xc0, 0, 0, 0, 0, 0, 0, 1, 9}},
			run: func(in []byte) {
				quicwire.ConsumeVarint(in)
				quicwire.ConsumeVarintInt64(in)
				quicwire.ConsumeVarintBytes(in)
				quicwire.ConsumeUint8Bytes(in)
				quicwire.ConsumeUint32(in)
				quicwire.ConsumeUint64(in)
			}})
	})
	return targets
}

func targetByName(n string) *target {
	for _, t := range allTargets() {
		if t.name == n {
			return t
		}
	}
	return nil
}

// checkInput runs one target on one input under the C03 oracle.
func checkInput(tg *target, in []byte, meter bool) error {
	in = exact(in)
	rt.Inflight(tg.name, in)
	var o rt.Outcome
	if meter {
		o = rt.Guard(func() { tg.run(in) })
	} else {
		o = rt.GuardLite(func() { tg.run(in) })
	}
	rt.Returned()
	if o.Panic != nil {
		return fmt.Errorf("C03/%s/panic input %s: panic: %v\n%s", tg.name, rt.Hex(in), o.Panic, trimStack(o.Stack))
	}
	if meter && o.AllocBytes > rt.AllocBudget(len(in)) {
		return fmt.Errorf("C03/%s/alloc input %s (%d bytes): %d bytes allocated, budget %d", tg.name, rt.Hex(in), len(in), o.AllocBytes, rt.AllocBudget(len(in)))
	}
	return nil
}

func trimStack(s string) string {
	if len(s) > 1800 {
		return s[:1800] + "..."
	}
	return s
}
