package ref

import (
	"crypto/elliptic"
	"crypto/sha512"
	"math/big"
)

var (
	ClientBlindCtx = append([]byte{0x00, 0x03}, []byte("ClientBlind")...)
	IssuerBlindCtx = append([]byte{0x00, 0x03}, []byte("IssuerBlind")...)
)

// AnonymousIssuerOriginID is the value the property states: HKDF-SHA-384 with the
// client key as salt, the client key blinded by the origin index key as input
// keying material, and the label "IssuerOriginAlias" (48 bytes).
func AnonymousIssuerOriginID(clientKeyEnc []byte, indexKey *big.Int) []byte {
	c := elliptic.P384()
	x, y := elliptic.UnmarshalCompressed(c, clientKeyEnc)
	if x == nil {
		return nil
	}
	bx, by := ECDSABlindPublicKey(c, x, y, indexKey, IssuerBlindCtx)
	return HKDF(sha512.New384, clientKeyEnc, elliptic.MarshalCompressed(c, bx, by), []byte("IssuerOriginAlias"), 48)
}

// BlindCompressed blinds a compressed P-384 key and returns the compressed result.
func BlindCompressed(keyEnc []byte, blind *big.Int, ctx []byte) []byte {
	c := elliptic.P384()
	x, y := elliptic.UnmarshalCompressed(c, keyEnc)
	if x == nil {
		return nil
	}
	bx, by := ECDSABlindPublicKey(c, x, y, blind, ctx)
	return elliptic.MarshalCompressed(c, bx, by)
}
