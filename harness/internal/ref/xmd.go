package ref

import (
	"crypto/elliptic"
	"crypto/hmac"
	"crypto/sha256"
	"crypto/sha512"
	"hash"
	"math/big"
)

// ExpandMessageXMD is RFC 9380 section 5.3.1, written from the RFC.
func ExpandMessageXMD(h func() hash.Hash, msg, dst []byte, lenInBytes int) []byte {
	hh := h()
	bInBytes := hh.Size()
	sInBytes := hh.BlockSize()
	ell := (lenInBytes + bInBytes - 1) / bInBytes
	if ell > 255 || lenInBytes > 65535 || len(dst) > 255 {
		panic("expand_message_xmd: parameters out of range")
	}
	dstPrime := append(append([]byte{}, dst...), byte(len(dst)))
	zPad := make([]byte, sInBytes)
	libStr := []byte{byte(lenInBytes >> 8), byte(lenInBytes)}
	hh.Reset()
	hh.Write(zPad)
	hh.Write(msg)
	hh.Write(libStr)
	hh.Write([]byte{0})
	hh.Write(dstPrime)
	b0 := hh.Sum(nil)
	hh.Reset()
	hh.Write(b0)
	hh.Write([]byte{1})
	hh.Write(dstPrime)
	bi := hh.Sum(nil)
	out := append([]byte{}, bi...)
	for i := 2; i <= ell; i++ {
		x := make([]byte, len(b0))
		for j := range x {
			x[j] = b0[j] ^ bi[j]
		}
		hh.Reset()
		hh.Write(x)
		hh.Write([]byte{byte(i)})
		hh.Write(dstPrime)
		bi = hh.Sum(nil)
		out = append(out, bi...)
	}
	return out[:lenInBytes]
}

// ECDSABlindScalar is the key-blinding factor of the ECDSA fork as the
// property states it: hash_to_field (XMD with the curve's hash, DST "ECDSA Key
// Blind", one element, L = 32/48/72/98) of blind-key bytes || 0x00 || context,
// where the blind-key bytes are the minimal big-endian bytes of the blind scalar.
func ECDSABlindScalar(curve elliptic.Curve, blindKey *big.Int, ctx []byte) *big.Int {
	var h func() hash.Hash
	var L int
	switch curve.Params().Name {
	case "P-224":
		h, L = sha256.New, 32
	case "P-256":
		h, L = sha256.New, 48
	case "P-384":
		h, L = sha512.New384, 72
	case "P-521":
		h, L = sha512.New, 98
	default:
		panic("unsupported curve")
	}
	msg := append(append(append([]byte{}, blindKey.Bytes()...), 0x00), ctx...)
	u := ExpandMessageXMD(h, msg, []byte("ECDSA Key Blind"), L)
	return new(big.Int).Mod(new(big.Int).SetBytes(u), curve.Params().N)
}

// ECDSABlindPublicKey multiplies the point by the blinding factor with crypto/elliptic.
func ECDSABlindPublicKey(curve elliptic.Curve, x, y *big.Int, blindKey *big.Int, ctx []byte) (*big.Int, *big.Int) {
	k := ECDSABlindScalar(curve, blindKey, ctx)
	return curve.ScalarMult(x, y, k.Bytes())
}

// HKDF (RFC 5869) over crypto/hmac.
func HKDF(h func() hash.Hash, salt, ikm, info []byte, n int) []byte {
	if salt == nil {
		salt = make([]byte, h().Size())
	}
	ext := hmac.New(h, salt)
	ext.Write(ikm)
	prk := ext.Sum(nil)
	var out, t []byte
	for i := byte(1); len(out) < n; i++ {
		m := hmac.New(h, prk)
		m.Write(t)
		m.Write(info)
		m.Write([]byte{i})
		t = m.Sum(nil)
		out = append(out, t...)
	}
	return out[:n]
}
