package ref

import "math/big"

// A math/big model of edwards25519 (RFC 8032 section 5.1): -x^2 + y^2 = 1 + d x^2 y^2 over GF(2^255-19).
// Affine coordinates, textbook formulas, double-and-add. Slow and obviously correct.

var (
	EdP, _ = new(big.Int).SetString("57896044618658097711785492504343953926634992332820282019728792003956564819949", 10) // 2^255-19
	EdL, _ = new(big.Int).SetString("7237005577332262213973186563042994240857116359379907606001950938285454250989", 10)  // 2^252 + 27742317777372353535851937790883648493
	EdD    = func() *big.Int {
		d := new(big.Int).ModInverse(big.NewInt(121666), EdP)
		d.Mul(d, big.NewInt(-121665))
		return d.Mod(d, EdP)
	}()
	edSqrtM1 = new(big.Int).Exp(big.NewInt(2), new(big.Int).Div(new(big.Int).Sub(EdP, big.NewInt(1)), big.NewInt(4)), EdP)
)

type EdPoint struct{ X, Y *big.Int }

func EdIdentity() EdPoint { return EdPoint{big.NewInt(0), big.NewInt(1)} }

func mod(v *big.Int) *big.Int { return v.Mod(v, EdP) }

func leToInt(b []byte) *big.Int {
	r := make([]byte, len(b))
	for i := range b {
		r[len(b)-1-i] = b[i]
	}
	return new(big.Int).SetBytes(r)
}

func intToLE(v *big.Int, n int) []byte {
	be := make([]byte, n)
	v.FillBytes(be)
	out := make([]byte, n)
	for i := range be {
		out[n-1-i] = be[i]
	}
	return out
}

// EdDecode follows the decoding rule of Go's edwards25519 (which this fork copies and the standard
// library uses): the y coordinate is taken modulo p (non-canonical encodings accepted), x is the
// square root of (y^2-1)/(dy^2+1) with the requested sign, and x = 0 with the sign bit set is accepted.
func EdDecode(b []byte) (EdPoint, bool) {
	if len(b) != 32 {
		return EdPoint{}, false
	}
	c := append([]byte{}, b...)
	sign := c[31] >> 7
	c[31] &= 0x7f
	y := mod(leToInt(c))
	yy := mod(new(big.Int).Mul(y, y))
	u := mod(new(big.Int).Sub(yy, big.NewInt(1)))
	v := mod(new(big.Int).Add(new(big.Int).Mul(EdD, yy), big.NewInt(1)))
	vinv := new(big.Int).ModInverse(v, EdP)
	if vinv == nil {
		return EdPoint{}, false
	}
	xx := mod(new(big.Int).Mul(u, vinv))
	// square root: x = xx^((p+3)/8), fix up with sqrt(-1)
	x := new(big.Int).Exp(xx, new(big.Int).Div(new(big.Int).Add(EdP, big.NewInt(3)), big.NewInt(8)), EdP)
	if mod(new(big.Int).Mul(x, x)).Cmp(xx) != 0 {
		x = mod(new(big.Int).Mul(x, edSqrtM1))
	}
	if mod(new(big.Int).Mul(x, x)).Cmp(xx) != 0 {
		return EdPoint{}, false
	}
	if x.Bit(0) == 1 { // take the even ("non-negative") root
		x = mod(new(big.Int).Sub(EdP, x))
	}
	if sign == 1 {
		x = mod(new(big.Int).Sub(EdP, x)) // -0 = 0
	}
	return EdPoint{x, y}, true
}

func EdEncode(p EdPoint) []byte {
	out := intToLE(p.Y, 32)
	out[31] |= byte(p.X.Bit(0)) << 7
	return out
}

func EdAdd(p, q EdPoint) EdPoint {
	x1y2 := new(big.Int).Mul(p.X, q.Y)
	x2y1 := new(big.Int).Mul(q.X, p.Y)
	y1y2 := new(big.Int).Mul(p.Y, q.Y)
	x1x2 := new(big.Int).Mul(p.X, q.X)
	dxy := mod(new(big.Int).Mul(EdD, mod(new(big.Int).Mul(x1x2, y1y2))))
	xn := mod(new(big.Int).Add(x1y2, x2y1))
	yn := mod(new(big.Int).Add(y1y2, x1x2))
	xd := new(big.Int).ModInverse(mod(new(big.Int).Add(big.NewInt(1), dxy)), EdP)
	yd := new(big.Int).ModInverse(mod(new(big.Int).Sub(big.NewInt(1), dxy)), EdP)
	return EdPoint{mod(xn.Mul(xn, xd)), mod(yn.Mul(yn, yd))}
}

func EdNeg(p EdPoint) EdPoint { return EdPoint{mod(new(big.Int).Sub(EdP, p.X)), new(big.Int).Set(p.Y)} }

func EdScalarMult(k *big.Int, p EdPoint) EdPoint {
	r := EdIdentity()
	for i := k.BitLen() - 1; i >= 0; i-- {
		r = EdAdd(r, r)
		if k.Bit(i) == 1 {
			r = EdAdd(r, p)
		}
	}
	return r
}

func EdBase() EdPoint {
	y := mod(new(big.Int).Mul(big.NewInt(4), new(big.Int).ModInverse(big.NewInt(5), EdP)))
	p, ok := EdDecode(intToLE(y, 32))
	if !ok {
		panic("base point")
	}
	return p
}

// EdScalarLE reduces a little-endian value modulo l and returns the canonical 32-byte encoding.
func EdScalarLE(b []byte) []byte { return intToLE(new(big.Int).Mod(leToInt(b), EdL), 32) }

func EdScalarInt(b []byte) *big.Int { return new(big.Int).Mod(leToInt(b), EdL) }

func EdScalarBytes(v *big.Int) []byte { return intToLE(new(big.Int).Mod(v, EdL), 32) }

// EdSmallOrderPoints returns the 8 points of order dividing 8.
func EdSmallOrderPoints() []EdPoint {
	// find a point of order 8: [l]P for P not in the prime-order subgroup
	for y := int64(2); ; y++ {
		p, ok := EdDecode(intToLE(big.NewInt(y), 32))
		if !ok {
			continue
		}
		t := EdScalarMult(EdL, p)
		t4 := EdScalarMult(big.NewInt(4), t)
		if t4.X.Sign() == 0 && t4.Y.Cmp(big.NewInt(1)) == 0 {
			continue // order divides 4
		}
		out := []EdPoint{}
		acc := EdIdentity()
		for i := 0; i < 8; i++ {
			out = append(out, acc)
			acc = EdAdd(acc, t)
		}
		return out
	}
}

// IntToLE and EdScalarIntRaw are exported helpers for harness generators.
func IntToLE(v *big.Int, n int) []byte { return intToLE(v, n) }

// EdScalarIntRaw is the little-endian value without reduction.
func EdScalarIntRaw(b []byte) *big.Int { return leToInt(b) }
