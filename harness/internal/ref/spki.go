package ref

import "math/big"

// DER helpers and the RSASSA-PSS SubjectPublicKeyInfo prescribed for Privacy
// Pass token keys (RFC 9578 section 6.5 / 8.2.2): SHA-384, MGF1 with SHA-384, salt length 48.

func derLen(n int) []byte {
	switch {
	case n < 0x80:
		return []byte{byte(n)}
	case n < 0x100:
		return []byte{0x81, byte(n)}
	case n < 0x10000:
		return []byte{0x82, byte(n >> 8), byte(n)}
	default:
		return []byte{0x83, byte(n >> 16), byte(n >> 8), byte(n)}
	}
}

func derTLV(tag byte, content []byte) []byte {
	return cat([]byte{tag}, derLen(len(content)), content)
}

// derUint encodes a non-negative INTEGER: minimal big-endian, a leading 00 when the top bit is set.
func derUint(v *big.Int) []byte {
	b := v.Bytes()
	if len(b) == 0 {
		b = []byte{0}
	}
	if b[0]&0x80 != 0 {
		b = append([]byte{0}, b...)
	}
	return derTLV(0x02, b)
}

// pssAlgorithmIdentifier is the fixed AlgorithmIdentifier, as bytes:
// SEQUENCE { OID rsassa-pss, SEQUENCE { [0] { SEQUENCE { OID sha384 } }, [1] { SEQUENCE { OID mgf1, SEQUENCE { OID sha384 } } }, [2] { INTEGER 48 } } }
var pssAlgorithmIdentifier = []byte{
	0x30, 0x3d,
	0x06, 0x09, 0x2a, 0x86, 0x48, 0x86, 0xf7, 0x0d, 0x01, 0x01, 0x0a,
	0x30, 0x30,
	0xa0, 0x0d, 0x30, 0x0b, 0x06, 0x09, 0x60, 0x86, 0x48, 0x01, 0x65, 0x03, 0x04, 0x02, 0x02,
	0xa1, 0x1a, 0x30, 0x18, 0x06, 0x09, 0x2a, 0x86, 0x48, 0x86, 0xf7, 0x0d, 0x01, 0x01, 0x08,
	0x30, 0x0b, 0x06, 0x09, 0x60, 0x86, 0x48, 0x01, 0x65, 0x03, 0x04, 0x02, 0x02,
	0xa2, 0x03, 0x02, 0x01, 0x30,
}

// rsaEncryptionAlgorithmIdentifier: SEQUENCE { OID rsaEncryption, NULL }
var rsaEncryptionAlgorithmIdentifier = []byte{0x30, 0x0d, 0x06, 0x09, 0x2a, 0x86, 0x48, 0x86, 0xf7, 0x0d, 0x01, 0x01, 0x01, 0x05, 0x00}

func spki(algo []byte, n, e *big.Int) []byte {
	rsaPub := derTLV(0x30, cat(derUint(n), derUint(e)))
	bitString := derTLV(0x03, cat([]byte{0x00}, rsaPub))
	return derTLV(0x30, cat(algo, bitString))
}

// TokenKeyPSS is the DER of an RSA token key in the RSASSA-PSS form.
func TokenKeyPSS(n, e *big.Int) []byte { return spki(pssAlgorithmIdentifier, n, e) }

// TokenKeyRSAEncryption is the legacy rsaEncryption form.
func TokenKeyRSAEncryption(n, e *big.Int) []byte { return spki(rsaEncryptionAlgorithmIdentifier, n, e) }
