// Package ref holds reference models written from the specifications, not
// from pat-go: it imports nothing of pat-go.
package ref

// VarintLen is RFC 9000 section 16: shortest of the 1, 2, 4, 8-byte forms. 0 if not representable.
func VarintLen(v uint64) int {
	switch {
	case v < 1<<6:
		return 1
	case v < 1<<14:
		return 2
	case v < 1<<30:
		return 4
	case v < 1<<62:
		return 8
	}
	return 0
}

// VarintEncode: the two most significant bits of the first byte hold log2 of the length,
// the rest is the value in network byte order.
func VarintEncode(v uint64) []byte {
	n := VarintLen(v)
	if n == 0 {
		return nil
	}
	out := make([]byte, n)
	for i := n - 1; i >= 0; i-- {
		out[i] = byte(v)
		v >>= 8
	}
	switch n {
	case 2:
		out[0] |= 0x40
	case 4:
		out[0] |= 0x80
	case 8:
		out[0] |= 0xC0
	}
	return out
}

// VarintDecode reads the number of bytes announced by the first byte's top two bits.
func VarintDecode(b []byte) (v uint64, n int, ok bool) {
	if len(b) == 0 {
		return 0, 0, false
	}
	n = 1 << (b[0] >> 6)
	if len(b) < n {
		return 0, 0, false
	}
	v = uint64(b[0] & 0x3f)
	for i := 1; i < n; i++ {
		v = v<<8 | uint64(b[i])
	}
	return v, n, true
}
