package ref

import (
	"crypto/sha256"
	"crypto/sha512"
	"encoding/hex"
	"math/big"
	"testing"
)

// Self-tests of the reference code against published vectors.
func TestXMDRFC9380(t *testing.T) {
	// RFC 9380 appendix K.1 (SHA-256), K.3 (SHA-512)
	dst := []byte("QUUX-V01-CS02-with-expander-SHA256-128")
	for _, c := range []struct {
		msg, want string
		n         int
	}{
		{"", "68a985b87eb6b46952128911f2a4412bbc302a9d759667f87f7a21d803f07235", 0x20},
		{"abc", "d8ccab23b5985ccea865c6c97b6e5b8350e794e603b4b97902f53a8a0d605615", 0x20},
	} {
		if got := hex.EncodeToString(ExpandMessageXMD(sha256.New, []byte(c.msg), dst, c.n)); got != c.want {
			t.Fatalf("xmd sha256 %q: %s", c.msg, got)
		}
	}
	dst512 := []byte("QUUX-V01-CS02-with-expander-SHA512-256")
	if got := hex.EncodeToString(ExpandMessageXMD(sha512.New, []byte(""), dst512, 0x20)); got != "6b9a7312411d92f921c6f68ca0b6380730a1a4d982c507211a90964c394179ba" {
		t.Fatalf("xmd sha512: %s", got)
	}
}

func TestHKDFRFC5869(t *testing.T) {
	ikm, _ := hex.DecodeString("0b0b0b0b0b0b0b0b0b0b0b0b0b0b0b0b0b0b0b0b0b0b")
	salt, _ := hex.DecodeString("000102030405060708090a0b0c")
	info, _ := hex.DecodeString("f0f1f2f3f4f5f6f7f8f9")
	want := "3cb25f25faacd57a90434f64d0362f2a2d2d0a90cf1a5a4c5db02d56ecc4c5bf34007208d5b887185865"
	if got := hex.EncodeToString(HKDF(sha256.New, salt, ikm, info, 42)); got != want {
		t.Fatalf("hkdf: %s", got)
	}
}

func TestVarintRFC9000(t *testing.T) {
	// RFC 9000 appendix A.1
	for _, c := range []struct {
		enc string
		v   uint64
	}{
		{"c2197c5eff14e88c", 151288809941952652}, {"9d7f3e7d", 494878333}, {"7bbd", 15293}, {"25", 37}, {"4025", 37},
	} {
		b, _ := hex.DecodeString(c.enc)
		v, n, ok := VarintDecode(b)
		if !ok || v != c.v || n != len(b) {
			t.Fatalf("%s: %d %d %v", c.enc, v, n, ok)
		}
	}
	if hex.EncodeToString(VarintEncode(151288809941952652)) != "c2197c5eff14e88c" || hex.EncodeToString(VarintEncode(37)) != "25" {
		t.Fatal("encode")
	}
}

func TestEdModelRFC8032(t *testing.T) {
	// base point encoding and RFC 8032 test 1 public key: A = [clamp(SHA512(seed)[:32])]B
	if hex.EncodeToString(EdEncode(EdBase())) != "5866666666666666666666666666666666666666666666666666666666666666" {
		t.Fatal("base point")
	}
	seed, _ := hex.DecodeString("9d61b19deffd5a60ba844af492ec2cc44449c5697b326919703bac031cae7f60")
	h := sha512.Sum512(seed)
	h[0] &= 248
	h[31] &= 63
	h[31] |= 64
	a := EdScalarMult(leToInt(h[:32]), EdBase())
	if hex.EncodeToString(EdEncode(a)) != "d75a980182b10ab7d54bfed3c964073a0ee172f3daa62325af021a68f707511a" {
		t.Fatalf("rfc8032 test 1 public key: %x", EdEncode(a))
	}
	if p := EdScalarMult(EdL, EdBase()); p.X.Sign() != 0 || p.Y.Cmp(EdIdentity().Y) != 0 {
		t.Fatal("[l]B != identity")
	}
	so := EdSmallOrderPoints()
	if len(so) != 8 {
		t.Fatal("small order points")
	}
	for _, p := range so {
		if q := EdScalarMult(big8, p); q.X.Sign() != 0 || q.Y.Cmp(EdIdentity().Y) != 0 {
			t.Fatal("small order point has order > 8")
		}
		d, ok := EdDecode(EdEncode(p))
		if !ok || d.X.Cmp(p.X) != 0 || d.Y.Cmp(p.Y) != 0 {
			t.Fatal("decode(encode(small-order point))")
		}
	}
}

var big8 = big.NewInt(8)
