package ref

import "strings"

// Independent encoders for the Privacy Pass wire structures, written from the
// TLS presentation-language definitions (RFC 9577/9578, rate-limit draft,
// batched-tokens draft): plain concatenation, no pat-go code.

func u16(v int) []byte { return []byte{byte(v >> 8), byte(v)} }

func cat(parts ...[]byte) []byte {
	var out []byte
	for _, p := range parts {
		out = append(out, p...)
	}
	if out == nil {
		out = []byte{}
	}
	return out
}

// struct { uint16 token_type; opaque issuer_name<1..2^16-1>; opaque redemption_nonce<0..32>; opaque origin_info<0..2^16-1>; } TokenChallenge;
func EncodeChallenge(typ uint16, issuer string, nonce []byte, origins []string) []byte {
	oi := strings.Join(origins, ",")
	return cat(u16(int(typ)), u16(len(issuer)), []byte(issuer), []byte{byte(len(nonce))}, nonce, u16(len(oi)), []byte(oi))
}

// struct { uint16 token_type; uint8 nonce[32]; uint8 challenge_digest[32]; uint8 token_key_id[32]; uint8 authenticator[Nk]; } Token;
func EncodeToken(typ uint16, nonce, context, keyID, auth []byte) []byte {
	return cat(u16(int(typ)), nonce, context, keyID, auth)
}

// struct { uint16 token_type = 0x0001; uint8 truncated_token_key_id; uint8 blinded_msg[Ne]; } TokenRequest;   (Ne = 49)
// struct { uint16 token_type = 0x0002; uint8 truncated_token_key_id; uint8 blinded_msg[Nk]; } TokenRequest;   (Nk = 256)
func EncodeBasicRequest(typ uint16, keyID uint8, blinded []byte) []byte {
	return cat(u16(int(typ)), []byte{keyID}, blinded)
}

// struct { uint16 token_type = 0x0003; uint8 request_key[49]; uint8 issuer_encap_key_id[32];
//
//	opaque encrypted_token_request<1..2^16-1>; uint8 request_signature[96]; } TokenRequest;
func EncodeRateLimitedRequest(requestKey, nameKeyID, encrypted, signature []byte) []byte {
	return cat(u16(3), requestKey, nameKeyID, u16(len(encrypted)), encrypted, signature)
}

// struct { uint8 token_key_id; uint8 blinded_msg[256]; opaque padded_origin_name<0..2^16-1>; } InnerTokenRequest;
func EncodeInnerRequest(keyID uint8, blinded, paddedOrigin []byte) []byte {
	return cat([]byte{keyID}, blinded, u16(len(paddedOrigin)), paddedOrigin)
}

// struct { uint16 token_type = 0x0005; uint8 truncated_token_key_id; BlindedElement blinded_elements<V>; } TokenRequest; (32-byte elements, varint length)
func EncodeBatchedPrivateRequest(keyID uint8, elements [][]byte) []byte {
	body := cat(elements...)
	return cat(u16(5), []byte{keyID}, VarintEncode(uint64(len(body))), body)
}

// struct { uint8 key_id; HpkeKemId kem_id; HpkePublicKey public_key; HpkeKdfId kdf_id; HpkeAeadId aead_id; } EncapKey;
func EncodeEncapKey(id uint8, kem uint16, pk []byte, kdf, aead uint16) []byte {
	return cat([]byte{id}, u16(int(kem)), pk, u16(int(kdf)), u16(int(aead)))
}

// struct { TokenRequest token_requests<V>; } BatchTokenRequest;
func EncodeBatchRequest(encodedRequests [][]byte) []byte {
	body := cat(encodedRequests...)
	return cat(VarintEncode(uint64(len(body))), body)
}

// struct { uint8 status; select (status) { case present: uint16 token_type; TokenResponse r; case absent: } } OptionalTokenResponse;
// struct { OptionalTokenResponse token_responses<V>; } BatchTokenResponse;
// An empty entry is absent; the type of a present entry is given explicitly.
type BatchEntry struct {
	Type     uint16
	Response []byte // empty = absent
}

func EncodeBatchResponse(entries []BatchEntry) []byte {
	var body []byte
	for _, e := range entries {
		if len(e.Response) == 0 {
			body = append(body, 0)
		} else {
			body = append(body, 1)
			body = append(body, u16(int(e.Type))...)
			body = append(body, e.Response...)
		}
	}
	return cat(VarintEncode(uint64(len(body))), body)
}

// BasicResponseLen is the TokenResponse length per type: Ne + 2*Ns = 49+96 (type 1), Nk = 256 (type 2).
func BasicResponseLen(typ uint16) int {
	switch typ {
	case 1:
		return 145
	case 2:
		return 256
	}
	return -1
}

// BasicRequestLen is the TokenRequest length per type.
func BasicRequestLen(typ uint16) int {
	switch typ {
	case 1:
		return 3 + 49
	case 2:
		return 3 + 256
	}
	return -1
}
