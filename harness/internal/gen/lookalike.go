package gen

import "strings"

// LookAlikes returns names that a normalising, truncating or suffix/prefix-matching lookup would confuse with
// name although they are different byte strings: letter case, trailing dot, default ports, scheme, trailing slash,
// "www." and other prepended labels, parent domain, surrounding white space, percent-encoding, an embedded NUL
// followed by more bytes. None equals name, none ends in a zero byte (a trailing zero byte cannot be told from
// padding on the wire), duplicates removed.
func LookAlikes(name string) []string {
	seen := map[string]bool{name: true}
	var out []string
	add := func(s string) {
		if seen[s] || (len(s) > 0 && s[len(s)-1] == 0) {
			return
		}
		seen[s] = true
		out = append(out, s)
	}
	add(strings.ToUpper(name))
	add(strings.ToLower(name))
	if b := []byte(name); len(b) > 0 {
		for i := range b {
			if (b[i] >= 'a' && b[i] <= 'z') || (b[i] >= 'A' && b[i] <= 'Z') {
				c := append([]byte{}, b...)
				c[i] ^= 0x20 // one letter's case
				add(string(c))
				break
			}
		}
		for i := len(b) - 1; i >= 0; i-- {
			if (b[i] >= 'a' && b[i] <= 'z') || (b[i] >= 'A' && b[i] <= 'Z') {
				c := append([]byte{}, b...)
				c[i] ^= 0x20
				add(string(c))
				break
			}
		}
	}
	add(name + ".")
	add(strings.TrimSuffix(name, "."))
	add(name + ":443")
	add(name + ":80")
	add(strings.TrimSuffix(name, ":443"))
	add("https://" + name)
	add(name + "/")
	add("www." + name)
	add(strings.TrimPrefix(name, "www."))
	add("a.b." + name)
	add("." + name)
	if i := strings.IndexByte(name, '.'); i >= 0 && i+1 < len(name) {
		add(name[i+1:]) // the parent domain
	}
	add(" " + name)
	add(name + " ")
	add("\t" + name)
	add(name + "\r\n")
	add(strings.ReplaceAll(name, ".", "%2e"))
	add(strings.ReplaceAll(name, ".", "%2E"))
	add(name + "\x00x")
	add(name + "\x00" + name)
	add(name + "x")
	if len(name) > 0 {
		add(name[:len(name)-1])
		add(name[1:])
	}
	add(name + name)
	return out
}

// ChecksumTwins returns pairs of different origin-like names of equal length that collide under a weak 32-bit checksum
// (see WeakHashCollisions): register one, ask for the other.
func ChecksumTwins() []Collision { return WeakHashCollisions("origin-%s.example") }
