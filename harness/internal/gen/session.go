package gen

import (
	"bytes"
	"crypto/elliptic"
	"crypto/rsa"
	"fmt"
	"math/big"

	"github.com/cloudflare/circl/oprf"
	patecdsa "github.com/cloudflare/pat-go/ecdsa"
	"github.com/cloudflare/pat-go/tokens"
	"github.com/cloudflare/pat-go/tokens/type1"
	"github.com/cloudflare/pat-go/tokens/type2"
	"github.com/cloudflare/pat-go/tokens/type3"
	"github.com/cloudflare/pat-go/tokens/type5"
	"pgregory.net/rapid"
)

// Session is one client request state of any token type together with the
// issuer it was created for, behind a uniform interface.
type Session struct {
	Type      uint16
	Challenge []byte
	Nonces    [][]byte
	KeyID     []byte
	Mode      string   // "random" or "withblind"
	Blinds    [][]byte // type 5, fixed-blind creation: the blinds
	ArgError  error    // request creation wrote to one of its byte arguments

	OKey *oprf.PrivateKey // types 1, 5
	RKey *rsa.PrivateKey  // types 2, 3

	// RequestBytes is Request().Marshal() as produced by the client.
	RequestBytes []byte
	// IssueWire decodes the bytes into a FRESH request object and evaluates it (the issuer side of the wire).
	IssueWire func(req []byte) ([]byte, error)
	// Finalize hands response bytes to the client state.
	Finalize func(resp []byte) ([]tokens.Token, error)

	// type 3 only
	Issuer3      *type3.RateLimitedIssuer
	State3       type3.RateLimitedTokenRequestState
	Origin       string
	ClientSecret []byte
	BlindKey     []byte

	State1 type1.BasicPrivateTokenRequestState
	State2 type2.BasicPublicTokenRequestState
	State5 type5.BatchedPrivateTokenRequestState
}

// VerifyIndependent verifies a token under the issuer key by means that do not
// go through the pat-go client: circl FullEvaluate (types 1, 5), crypto/rsa (types 2, 3).
func (s *Session) VerifyIndependent(tok tokens.Token) error {
	input := append([]byte{byte(tok.TokenType >> 8), byte(tok.TokenType)}, tok.Nonce...)
	input = append(input, tok.Context...)
	input = append(input, tok.KeyID...)
	switch s.Type {
	case 1:
		if !bytes.Equal(VOPRFOutput(oprf.SuiteP384, s.OKey, input), tok.Authenticator) {
			return fmt.Errorf("authenticator is not the VOPRF(P-384) evaluation of the token input")
		}
	case 5:
		if !bytes.Equal(VOPRFOutput(oprf.SuiteRistretto255, s.OKey, input), tok.Authenticator) {
			return fmt.Errorf("authenticator is not the VOPRF(ristretto255) evaluation of the token input")
		}
	case 2, 3:
		return VerifyPSS(&s.RKey.PublicKey, input, tok.Authenticator)
	}
	return nil
}

// CheckTokens applies the C01/C02 oracle to the client's output.
func (s *Session) CheckTokens(toks []tokens.Token) error {
	if len(toks) != len(s.Nonces) {
		return fmt.Errorf("%d tokens for %d nonces", len(toks), len(s.Nonces))
	}
	for i, tok := range toks {
		if err := CheckTokenBinding(tok, s.Type, s.Nonces[i], s.Challenge, s.KeyID); err != nil {
			return fmt.Errorf("token %d: %v", i, err)
		}
		if err := s.VerifyIndependent(tok); err != nil {
			return fmt.Errorf("token %d does not verify under the issuer key: %v", i, err)
		}
	}
	return nil
}

// Clients holds one client object per token type, built with the package constructors, so that
// several outstanding requests can share a client the way an application would.
type Clients struct {
	C1 type1.BasicPrivateClient
	C2 type2.BasicPublicClient
	C5 type5.BatchedPrivateClient
	C3 map[string]type3.RateLimitedClient // by client secret
}

func NewClients() *Clients {
	return &Clients{C1: type1.NewBasicPrivateClient(), C2: type2.NewBasicPublicClient(), C5: type5.NewBatchedPrivateClient(), C3: map[string]type3.RateLimitedClient{}}
}

type SessionOpts struct {
	Clients      *Clients // nil: a fresh client object per session
	ClientSecret []byte   // type 3: reuse this client secret
	MaxBatch     int      // type 5: maximum number of nonces
	BigBatches   bool     // type 5: also batch sizes crossing the 1->2->4 byte varint boundaries
	OKey         *oprf.PrivateKey
	RKeyIdx      int             // -1: draw
	RKey         *rsa.PrivateKey // overrides RKeyIdx (keys outside the pool, e.g. the small-exponent ones)
	// type 5: a second request that shares its FIRST nonce and blind (hence its first blinded element) with another one
	Nonce0, Blind0 []byte
	ForceWithBlind bool
	Challenge      []byte
	Issuer3        *type3.RateLimitedIssuer // reuse an issuer (same name key, origins)
	Origin         *string
}

func OriginName() *rapid.Generator[string] {
	return rapid.Custom(func(t *rapid.T) string {
		n := rapid.IntRange(0, 80).Draw(t, "len")
		if rapid.IntRange(0, 9).Draw(t, "longname") == 0 {
			n = rapid.IntRange(0, 200).Draw(t, "longlen")
		}
		if n == 0 {
			return ""
		}
		b := rapid.SliceOfN(rapid.ByteRange(1, 255), n, n).Draw(t, "name")
		if rapid.Bool().Draw(t, "ascii") {
			for i := range b {
				b[i] = "abcdefghijklmnopqrstuvwxyz.-0123456789"[int(b[i])%38]
			}
		} else if n > 2 && rapid.Bool().Draw(t, "innerNUL") {
			b[n/2] = 0
		}
		// names that look like they want normalising: trailing dot, upper case, surrounding space
		switch rapid.IntRange(0, 11).Draw(t, "decoration") {
		case 0:
			b[n-1] = '.'
		case 1:
			b[0] = 'A'
		case 2:
			b[n-1] = ' '
		case 3:
			b[0] = ' '
		}
		return string(b)
	})
}

// NewSession draws keys, challenge, nonces and client randomness and creates
// the client request state. rand.Reader must already be the case's DRBG.
func NewSession(t *rapid.T, typ uint16, o SessionOpts) (*Session, error) {
	s, err := newSession(t, typ, o)
	if err == nil && s != nil && s.ArgError != nil {
		return nil, s.ArgError
	}
	return s, err
}

func newSession(t *rapid.T, typ uint16, o SessionOpts) (*Session, error) {
	s := &Session{Type: typ}
	cl := o.Clients
	if cl == nil {
		cl = NewClients()
	}
	if o.Challenge != nil {
		s.Challenge = o.Challenge
	} else {
		s.Challenge = Challenge().Draw(t, "challenge")
	}
	withBlind := rapid.Bool().Draw(t, "withBlind") || o.ForceWithBlind
	s.Mode = "random"
	nTok := 1
	if typ == 5 {
		mb := o.MaxBatch
		if mb < 1 {
			mb = 8
		}
		nTok = rapid.IntRange(1, mb).Draw(t, "batch")
		if o.BigBatches && rapid.IntRange(0, 19).Draw(t, "big") == 0 {
			nTok = rapid.SampledFrom([]int{63, 64, 65, 511, 512, 513}).Draw(t, "bigbatch")
		}
	}
	for i := 0; i < nTok; i++ {
		s.Nonces = append(s.Nonces, Bytes32().Draw(t, "nonce"))
	}
	if o.Nonce0 != nil {
		s.Nonces[0] = append([]byte{}, o.Nonce0...)
	}
	// Argument buffers. The library never gets the harness's own slices: every byte argument of request creation
	// is carved out of ONE arena, each slice's capacity reaching to the end of the arena (so the arguments lie in
	// one another's spare capacity, as when a caller cuts them from one record). The arenas are taken from a
	// process-wide pool keyed by size, so consecutive requests find their arguments at the same addresses as the
	// previous request's (a caller reusing its buffers). After creation the arena must be unchanged (creation does
	// not write to its arguments); in half the cases it is then overwritten - a request state must not depend on
	// memory the caller still owns.
	var pendingArgs [][]byte
	arg := func(b []byte) []byte {
		pendingArgs = append(pendingArgs, b)
		return nil
	}
	_ = arg
	ar := &arena{}
	reuse := rapid.Bool().Draw(t, "callerReusesArgumentBuffers")
	var argErr error
	defer func() {
		if err := ar.changed(); err != nil && argErr == nil {
			argErr = err
		}
		if reuse {
			s.Mode += "+args-overwritten"
			ar.overwrite()
		}
		s.ArgError = argErr
	}()
	switch typ {
	case 1:
		s.OKey = o.OKey
		if s.OKey == nil {
			s.OKey = OPRFKey(oprf.SuiteP384, Seed().Draw(t, "keyseed"))
		}
		issuer := type1.NewBasicPrivateIssuer(s.OKey)
		s.KeyID = issuer.TokenKeyID()
		var err error
		if withBlind {
			s.Mode = "withblind"
			a := ar.layout(s.Challenge, s.Nonces[0], s.KeyID, P384Scalar().Draw(t, "blind"))
			s.State1, err = cl.C1.CreateTokenRequestWithBlind(a[0], a[1], a[2], issuer.TokenKey(), a[3])
		} else {
			a := ar.layout(s.Nonces[0], s.KeyID, s.Challenge)
			s.State1, err = cl.C1.CreateTokenRequest(a[2], a[0], a[1], issuer.TokenKey())
		}
		if err != nil {
			return nil, fmt.Errorf("CreateTokenRequest: %v", err)
		}
		s.RequestBytes = s.State1.Request().Marshal()
		s.IssueWire = func(req []byte) ([]byte, error) {
			r := new(type1.BasicPrivateTokenRequest)
			if !r.Unmarshal(req) {
				return nil, fmt.Errorf("issuer: request does not decode")
			}
			return issuer.Evaluate(r)
		}
		s.Finalize = func(resp []byte) ([]tokens.Token, error) {
			tok, err := s.State1.FinalizeToken(resp)
			if err != nil {
				return nil, err
			}
			return []tokens.Token{tok}, nil
		}
	case 5:
		s.OKey = o.OKey
		if s.OKey == nil {
			s.OKey = OPRFKey(oprf.SuiteRistretto255, Seed().Draw(t, "keyseed"))
		}
		issuer := type5.NewBatchedPrivateIssuer(s.OKey)
		s.KeyID = issuer.TokenKeyID()
		var err error
		if withBlind {
			s.Mode = "withblind"
			blinds := make([][]byte, nTok)
			for i := range blinds {
				blinds[i] = RistrettoScalar().Draw(t, "blind")
			}
			if o.Blind0 != nil {
				blinds[0] = append([]byte{}, o.Blind0...)
			}
			s.Blinds = blinds
			a := ar.layout(append(append([][]byte{s.Challenge, s.KeyID}, s.Nonces...), blinds...)...)
			s.State5, err = cl.C5.CreateTokenRequestWithBlinds(a[0], a[2:2+nTok], a[1], issuer.TokenKey(), a[2+nTok:])
		} else {
			a := ar.layout(append(append([][]byte{}, s.Nonces...), s.KeyID, s.Challenge)...)
			s.State5, err = cl.C5.CreateTokenRequest(a[nTok+1], a[:nTok], a[nTok], issuer.TokenKey())
		}
		if err != nil {
			return nil, fmt.Errorf("CreateTokenRequest: %v", err)
		}
		s.RequestBytes = s.State5.Request().Marshal()
		s.IssueWire = func(req []byte) ([]byte, error) {
			r := new(type5.BatchedPrivateTokenRequest)
			if !r.Unmarshal(req) {
				return nil, fmt.Errorf("issuer: request does not decode")
			}
			return issuer.Evaluate(r)
		}
		s.Finalize = func(resp []byte) ([]tokens.Token, error) { return s.State5.FinalizeTokens(resp) }
	case 2:
		idx := o.RKeyIdx
		if idx < 0 {
			idx = RSAKey().Draw(t, "rsakey")
		}
		s.RKey = RSAPool()[idx]
		if o.RKeyIdx < 0 && Uniform(t, 8, "smallExponentKey") == 0 {
			s.RKey = Pick(t, RSASmallExponentKeys(), "smallE") // a 2048-bit key with e = 3, 17 or 257
			s.Mode += "+small-e"
		}
		if o.RKey != nil {
			s.RKey = o.RKey
		}
		issuer := type2.NewBasicPublicIssuer(s.RKey)
		s.KeyID = issuer.TokenKeyID()
		var err error
		if withBlind {
			s.Mode = "withblind"
			blind := RSABlind(t, s.RKey.N)
			salt := rapid.SliceOfN(rapid.Byte(), 48, 48).Draw(t, "salt")
			a := ar.layout(s.Challenge, s.Nonces[0], s.KeyID, blind, salt)
			s.State2, err = cl.C2.CreateTokenRequestWithBlind(a[0], a[1], a[2], issuer.TokenKey(), a[3], a[4])
		} else {
			a := ar.layout(s.Nonces[0], s.KeyID, s.Challenge)
			s.State2, err = cl.C2.CreateTokenRequest(a[2], a[0], a[1], issuer.TokenKey())
		}
		if err != nil {
			return nil, fmt.Errorf("CreateTokenRequest: %v", err)
		}
		s.RequestBytes = s.State2.Request().Marshal()
		s.IssueWire = func(req []byte) ([]byte, error) {
			r := new(type2.BasicPublicTokenRequest)
			if !r.Unmarshal(req) {
				return nil, fmt.Errorf("issuer: request does not decode")
			}
			return issuer.Evaluate(r)
		}
		s.Finalize = func(resp []byte) ([]tokens.Token, error) {
			tok, err := s.State2.FinalizeToken(resp)
			if err != nil {
				return nil, err
			}
			return []tokens.Token{tok}, nil
		}
	case 3:
		if o.Issuer3 != nil {
			s.Issuer3 = o.Issuer3
			if o.RKey != nil {
				s.RKey = o.RKey
			} else {
				s.RKey = RSAPool()[o.RKeyIdx]
			}
		} else {
			idx := o.RKeyIdx
			if idx < 0 {
				idx = RSAKey().Draw(t, "rsakey")
			}
			s.RKey = RSAPool()[idx]
			if o.RKeyIdx < 0 && Uniform(t, 8, "smallExponentKey") == 0 {
				s.RKey = Pick(t, RSASmallExponentKeys(), "smallE")
				s.Mode += "+small-e"
			}
			if o.RKey != nil {
				s.RKey = o.RKey
			}
			s.Issuer3 = type3.NewRateLimitedIssuer(s.RKey)
			if s.Issuer3 == nil {
				return nil, fmt.Errorf("NewRateLimitedIssuer returned nil")
			}
		}
		if o.Origin != nil {
			s.Origin = *o.Origin
		} else {
			s.Origin = OriginName().Draw(t, "origin")
			if rapid.Bool().Draw(t, "registerWithIndexKey") {
				// the other registration entry point, with an index key chosen by the operator
				ik, err := patecdsa.CreateKey(elliptic.P384(), P384KeyBytes().Draw(t, "indexKey"))
				if err != nil {
					return nil, fmt.Errorf("CreateKey: %v", err)
				}
				if err := s.Issuer3.AddOriginWithIndexKey(s.Origin, ik); err != nil {
					return nil, fmt.Errorf("AddOriginWithIndexKey: %v", err)
				}
			} else if err := s.Issuer3.AddOrigin(s.Origin); err != nil {
				return nil, fmt.Errorf("AddOrigin: %v", err)
			}
		}
		s.KeyID = s.Issuer3.TokenKeyID()
		if o.ClientSecret != nil {
			s.ClientSecret = o.ClientSecret
		} else {
			s.ClientSecret = P384KeyBytes().Draw(t, "clientSecret")
		}
		s.BlindKey = P384KeyBytes().Draw(t, "requestBlind")
		client, ok := cl.C3[string(s.ClientSecret)]
		if !ok {
			client = type3.NewRateLimitedClientFromSecret(s.ClientSecret)
			cl.C3[string(s.ClientSecret)] = client
		}
		var err error
		a := ar.layout(s.Nonces[0], s.KeyID, s.BlindKey, s.Challenge)
		s.State3, err = client.CreateTokenRequest(a[3], a[0], a[2], a[1], s.Issuer3.TokenKey(), s.Origin, s.Issuer3.NameKey())
		if err != nil {
			return nil, fmt.Errorf("CreateTokenRequest: %v", err)
		}
		s.RequestBytes = s.State3.Request().Marshal()
		s.IssueWire = func(req []byte) ([]byte, error) {
			resp, _, err := s.Issuer3.Evaluate(req)
			return resp, err
		}
		s.Finalize = func(resp []byte) ([]tokens.Token, error) {
			tok, err := s.State3.FinalizeToken(resp)
			if err != nil {
				return nil, err
			}
			return []tokens.Token{tok}, nil
		}
	default:
		return nil, fmt.Errorf("no such type %d", typ)
	}
	return s, nil
}

// RSABlind draws r in [1, N) with gcd(r, N) = 1 as bytes, the documented domain of FixedBlind.
func RSABlind(t *rapid.T, n *big.Int) []byte {
	raw := rapid.SliceOfN(rapid.Byte(), 264, 264).Draw(t, "rsablind")
	r := new(big.Int).SetBytes(raw)
	r.Mod(r, new(big.Int).Sub(n, big.NewInt(1)))
	r.Add(r, big.NewInt(1))
	g := new(big.Int)
	for g.GCD(nil, nil, r, n).Cmp(big.NewInt(1)) != 0 {
		r.Add(r, big.NewInt(1))
		if r.Cmp(n) >= 0 {
			r.SetInt64(1)
		}
	}
	return r.Bytes()
}

func TypeName(typ uint16) string { return fmt.Sprintf("type%d", typ) }

// Adapters for the generic batch issuer's Issuer interface (the repository's own tests use the same shape).
type Batch1 struct{ I *type1.BasicPrivateIssuer }

func (b Batch1) Evaluate(r tokens.TokenRequest) ([]byte, error) {
	q, ok := r.(*type1.BasicPrivateTokenRequest)
	if !ok {
		return nil, fmt.Errorf("TokenRequest does not match issuer type")
	}
	return b.I.Evaluate(q)
}
func (b Batch1) TokenKeyID() []byte { return b.I.TokenKeyID() }
func (b Batch1) Type() uint16       { return type1.BasicPrivateTokenType }

type Batch2 struct{ I *type2.BasicPublicIssuer }

func (b Batch2) Evaluate(r tokens.TokenRequest) ([]byte, error) {
	q, ok := r.(*type2.BasicPublicTokenRequest)
	if !ok {
		return nil, fmt.Errorf("TokenRequest does not match issuer type")
	}
	return b.I.Evaluate(q)
}
func (b Batch2) TokenKeyID() []byte { return b.I.TokenKeyID() }
func (b Batch2) Type() uint16       { return type2.BasicPublicTokenType }

// arena lays byte arguments out in one buffer taken from a process-wide pool (same size => same memory as last time).
type arena struct {
	buf  []byte
	orig []byte
}

var arenaPool = map[int][]byte{}

// layout copies the values back to back into the pooled buffer of that total size and returns the slices.
func (a *arena) layout(vals ...[]byte) [][]byte {
	total := 16
	for _, v := range vals {
		total += len(v)
	}
	buf, ok := arenaPool[total]
	if !ok {
		buf = make([]byte, total)
		arenaPool[total] = buf
	}
	a.buf = buf
	off := 0
	out := make([][]byte, len(vals))
	for i, v := range vals {
		copy(buf[off:], v)
		out[i] = buf[off : off+len(v)] // capacity runs to the end of the arena
		off += len(v)
	}
	for i := off; i < total; i++ {
		buf[i] = 0xC3 // canary behind the last argument
	}
	a.orig = append(a.orig[:0], buf...)
	return out
}

func (a *arena) changed() error {
	if a.buf != nil && !bytes.Equal(a.buf, a.orig) {
		for i := range a.buf {
			if a.buf[i] != a.orig[i] {
				return fmt.Errorf("request creation wrote to caller memory: byte %d of the argument arena changed from %02x to %02x (arguments laid out back to back, each with the following ones in its spare capacity)", i, a.orig[i], a.buf[i])
			}
		}
	}
	return nil
}

func (a *arena) overwrite() {
	for i := range a.buf {
		a.buf[i] = 0xA5
	}
}
