package gen

import (
	"fmt"
	"hash/adler32"
	"hash/crc32"
	"hash/fnv"
	"sync"
)

// Collision is a pair of different strings of the same length that a weak 32-bit checksum cannot tell apart.
type Collision struct {
	Hash string
	A, B string
}

var (
	collideOnce sync.Once
	collisions  map[string][]Collision
)

// WeakHashCollisions returns, for a template with exactly one "%s" in it, pairs of different strings of equal length
// built from the template that collide under CRC-32 (IEEE and Castagnoli), FNV-1 / FNV-1a (32 bit), Adler-32, the
// byte sum and the byte XOR: what a table, cache or comparison keyed by such a checksum (plus, possibly, the length)
// would confuse. Found by a birthday search over a counter in the template (about 2^17 candidates per hash); the
// result is cached per template.
func WeakHashCollisions(template string) []Collision {
	collideOnce.Do(func() { collisions = map[string][]Collision{} })
	collideMu.Lock()
	defer collideMu.Unlock()
	if c, ok := collisions[template]; ok {
		return c
	}
	hashes := []struct {
		name string
		f    func([]byte) uint32
	}{
		{"crc32-ieee", crc32.ChecksumIEEE},
		{"crc32-castagnoli", func(b []byte) uint32 { return crc32.Checksum(b, crc32.MakeTable(crc32.Castagnoli)) }},
		{"fnv32a", func(b []byte) uint32 { h := fnv.New32a(); h.Write(b); return h.Sum32() }},
		{"fnv32", func(b []byte) uint32 { h := fnv.New32(); h.Write(b); return h.Sum32() }},
		{"adler32", adler32.Checksum},
		{"bytesum", func(b []byte) uint32 {
			var s uint32
			for _, x := range b {
				s += uint32(x)
			}
			return s
		}},
		{"bytexor", func(b []byte) uint32 {
			var s byte
			for _, x := range b {
				s ^= x
			}
			return uint32(s)
		}},
	}
	castagnoli := crc32.MakeTable(crc32.Castagnoli)
	hashes[1].f = func(b []byte) uint32 { return crc32.Checksum(b, castagnoli) }
	var out []Collision
	for _, h := range hashes {
		seen := map[uint32]string{}
		for i := 0; i < 1<<21; i++ {
			// fixed-width counter in a mixed alphabet (a plain decimal counter collides too rarely under FNV: it is injective on single-byte differences)
			s := fmt.Sprintf(template, fmt.Sprintf("%08x", uint32(i)*2654435761))
			v := h.f([]byte(s))
			if prev, ok := seen[v]; ok && prev != s {
				out = append(out, Collision{h.name, prev, s})
				break
			}
			seen[v] = s
		}
	}
	collisions[template] = out
	return out
}

var collideMu sync.Mutex
