package gen

import (
	"encoding/binary"

	"pgregory.net/rapid"
)

// hostile length values written over length/count fields.
var hostileLens = []uint64{0, 1, 2, 31, 32, 33, 48, 49, 63, 64, 96, 255, 256, 16383, 16384, 65535, 65536,
	1<<30 - 1, 1 << 30, 1<<31 - 1, 1 << 31, 1 << 32, 1 << 33, 1 << 35, 1 << 40, 1<<62 - 1}

func putVarintWidth(v uint64, w int) []byte {
	out := make([]byte, w)
	x := v
	for i := w - 1; i >= 0; i-- {
		out[i] = byte(x)
		x >>= 8
	}
	out[0] &= 0x3f
	switch w {
	case 2:
		out[0] |= 0x40
	case 4:
		out[0] |= 0x80
	case 8:
		out[0] |= 0xC0
	}
	return out
}

// Mutate derives a byte string from a valid message: structure-aware where a
// list of interesting offsets (length / count / tag fields) is given.
// Returns the mutated bytes and the mutation class (for the evidence histogram).
func Mutate(t *rapid.T, base []byte, others [][]byte, fieldOffsets []int) ([]byte, string) {
	b := append([]byte{}, base...)
	kind := Uniform(t, 13, "mut")
	switch kind {
	case 12:
		// a 16-bit length field whose content really is 65536 (or 131072) bytes longer than it says: the field at a hinted
		// offset is read as uint16 n and that many junk bytes are inserted behind its n content bytes. A decoder that derives
		// the length from the message size and compares modulo 2^16 takes this for well-formed.
		if len(fieldOffsets) == 0 || len(b) < 2 {
			return b, "identity"
		}
		pos := pickOffset(t, len(b)-1, fieldOffsets)
		n := int(b[pos])<<8 | int(b[pos+1])
		if pos+2+n > len(b) {
			return b, "identity"
		}
		extra := make([]byte, 65536*UniformRange(t, 1, 2, "wraps"))
		for i := range extra {
			extra[i] = byte(i*31 + 7)
		}
		out := append(append(append([]byte{}, b[:pos+2+n]...), extra...), b[pos+2+n:]...)
		return out, "length16-wrapped"
	case 0:
		return b, "identity"
	case 1:
		cut := UniformRange(t, 0, len(b), "cut")
		return b[:cut:cut], "truncate"
	case 2:
		ext := Bytes(t, 1, 40, "ext")
		return append(b, ext...), "extend"
	case 3:
		if len(b) == 0 {
			return b, "identity"
		}
		bit := Uniform(t, len(b)*8, "bit")
		b[bit/8] ^= 1 << (7 - bit%8)
		return b, "bitflip"
	case 4:
		if len(b) == 0 {
			return b, "identity"
		}
		pos := pickOffset(t, len(b), fieldOffsets)
		b[pos] = rapid.SampledFrom([]byte{0, 1, 2, 3, 5, 0x3f, 0x40, 0x41, 0x7f, 0x80, 0xbf, 0xc0, 0xfe, 0xff}).Draw(t, "val")
		return b, "setbyte"
	case 5:
		if len(others) == 0 {
			return b, "identity"
		}
		o := Pick(t, others, "other")
		i := UniformRange(t, 0, len(b), "i")
		j := UniformRange(t, 0, len(o), "j")
		return append(b[:i:i], o[j:]...), "splice"
	case 6, 7:
		// overwrite a length-like field with a hostile value in a drawn width
		if len(b) == 0 {
			return b, "identity"
		}
		pos := pickOffset(t, len(b), fieldOffsets)
		v := Pick(t, hostileLens, "hostile")
		if rapid.Bool().Draw(t, "relative") {
			rem := len(b) - pos
			v = uint64(rem + rapid.IntRange(-9, 2).Draw(t, "delta"))
			if int64(v) < 0 {
				v = 0
			}
		}
		var enc []byte
		switch Uniform(t, 6, "enc") {
		case 0:
			enc = []byte{byte(v)}
		case 1:
			enc = binary.BigEndian.AppendUint16(nil, uint16(v))
		case 2:
			enc = putVarintWidth(v, 2)
		case 3:
			enc = putVarintWidth(v, 4)
		case 4:
			enc = putVarintWidth(v, 8)
		case 5:
			enc = putVarintWidth(v, 1)
		}
		if rapid.Bool().Draw(t, "insert") {
			out := append(append(append([]byte{}, b[:pos]...), enc...), b[pos:]...)
			return out, "lenfield-insert"
		}
		out := append(append([]byte{}, b[:pos]...), enc...)
		if pos+len(enc) < len(b) {
			out = append(out, b[pos+len(enc):]...)
		}
		return out, "lenfield-overwrite"
	case 8:
		if len(b) < 2 {
			return b, "identity"
		}
		i := Uniform(t, len(b), "i")
		n := UniformRange(t, 1, min(len(b)-i, 64), "n")
		return append(b[:i:i], b[i+n:]...), "delete-chunk"
	case 9:
		i := UniformRange(t, 0, len(b), "i")
		ins := Bytes(t, 1, 64, "ins")
		return append(append(append([]byte{}, b[:i]...), ins...), b[i:]...), "insert-chunk"
	case 10:
		return Bytes(t, 0, 80, "random"), "random"
	default:
		// two mutations in sequence
		x, _ := Mutate(t, b, others, fieldOffsets)
		y, _ := Mutate(t, x, others, fieldOffsets)
		return y, "composite"
	}
}

func pickOffset(t *rapid.T, n int, fieldOffsets []int) int {
	if len(fieldOffsets) > 0 && Uniform(t, 4, "atField") != 0 {
		o := Pick(t, fieldOffsets, "field")
		if o < n {
			return o
		}
	}
	return Uniform(t, n, "pos")
}

// ---------------------------------------------------------------- framed messages

// Part is one field of a message: raw bytes (Kind 0) or a byte string with a
// uint8 (1), uint16 (2) or QUIC-varint (3) length prefix.
type Part struct {
	Kind int
	Data []byte
}

func Assemble(parts []Part, varintWidth int) []byte {
	var out []byte
	for _, p := range parts {
		switch p.Kind {
		case 1:
			out = append(out, byte(len(p.Data)))
		case 2:
			out = append(out, byte(len(p.Data)>>8), byte(len(p.Data)))
		case 3:
			w := varintWidth
			n := uint64(len(p.Data))
			min := 1
			switch {
			case n >= 1<<30:
				min = 8
			case n >= 1<<14:
				min = 4
			case n >= 1<<6:
				min = 2
			}
			if w < min {
				w = min
			}
			out = append(out, putVarintWidth(n, w)...)
		}
		out = append(out, p.Data...)
	}
	return out
}

// MutateParts changes the content and length of one field and re-frames the
// message consistently, so that the mutation survives the outer length checks
// and reaches the code that consumes the field.
func MutateParts(t *rapid.T, parts []Part, others [][]byte) ([]byte, string) {
	ps := make([]Part, len(parts))
	for i, p := range parts {
		ps[i] = Part{p.Kind, append([]byte{}, p.Data...)}
	}
	i := Uniform(t, len(ps), "part")
	d := ps[i].Data
	class := ""
	switch Uniform(t, 8, "pm") {
	case 0:
		d, class = []byte{}, "empty"
	case 1:
		n := UniformRange(t, 0, min(len(d), 64), "keep")
		d, class = d[:n], "short-prefix"
	case 2:
		if len(d) > 0 {
			n := UniformRange(t, max(0, len(d)-40), len(d), "keep")
			d = d[:n]
		}
		class = "cut-tail"
	case 3:
		d, class = append(d, Bytes(t, 1, 40, "ext")...), "extend"
	case 4:
		d, class = Bytes(t, 0, 70, "rand"), "random"
	case 5:
		if len(d) > 0 {
			bit := Uniform(t, len(d)*8, "bit")
			d[bit/8] ^= 1 << (7 - bit%8)
		}
		class = "bitflip"
	case 6:
		n := Pick(t, []int{1, 15, 16, 17, 31, 32, 33, 47, 48, 49, 63, 64, 65, 95, 96, 97, 144, 145, 146, 255, 256, 257}, "len")
		nd := make([]byte, n)
		copy(nd, d)
		d, class = nd, "resize"
	default:
		d, class = Mutate(t, d, others, []int{0, 1, 2, 3})
	}
	ps[i].Data = d
	w := Pick(t, []int{1, 1, 1, 2, 4, 8}, "vw")
	return Assemble(ps, w), "part:" + class
}

// HostileLens are the values written over length and count fields.
func HostileLens() []uint64 { return hostileLens }

// LengthEncodings returns v in every field encoding: uint8, uint16, and the 1/2/4/8-byte varint forms that can hold it.
func LengthEncodings(v uint64) [][]byte {
	var out [][]byte
	if v < 1<<8 {
		out = append(out, []byte{byte(v)})
	}
	if v < 1<<16 {
		out = append(out, []byte{byte(v >> 8), byte(v)})
	}
	for _, w := range []int{1, 2, 4, 8} {
		if v < 1<<(uint(8*w)-2) {
			out = append(out, putVarintWidth(v, w))
		}
	}
	return out
}
