// Package gen holds rapid generators and honest protocol runs shared by the
// property packages. It calls pat-go only through its public API.
package gen

import (
	"bytes"
	"crypto"
	"crypto/elliptic"
	"crypto/rsa"
	"crypto/sha256"
	"crypto/sha512"
	"crypto/x509"
	_ "embed"
	"encoding/pem"
	"fmt"
	"math/big"
	"sync"

	"github.com/cloudflare/circl/group"
	"github.com/cloudflare/circl/oprf"
	"github.com/cloudflare/pat-go/tokens"
	"pgregory.net/rapid"
)

//go:embed testdata/rsa_pool.pem
var rsaPoolPEM []byte

//go:embed testdata/rsa_collide.pem
var rsaCollidePEM []byte

//go:embed testdata/rsa_odd.pem
var rsaOddPEM []byte

// RSAOddKeys returns keys of 1024, 3072 and 4096 bits: sizes the token format (256-byte authenticator) cannot carry.
func RSAOddKeys() []*rsa.PrivateKey {
	var out []*rsa.PrivateKey
	rest := rsaOddPEM
	for {
		var blk *pem.Block
		blk, rest = pem.Decode(rest)
		if blk == nil {
			break
		}
		k, err := x509.ParsePKCS1PrivateKey(blk.Bytes)
		if err != nil {
			panic(err)
		}
		k.Precompute()
		out = append(out, k)
	}
	return out
}

//go:embed testdata/rsa_small_e.pem
var rsaSmallEPEM []byte

//go:embed testdata/rsa_short_modulus.pem
var rsaShortModulusPEM []byte

var (
	smallEOnce sync.Once
	smallE     []*rsa.PrivateKey
)

// RSASmallExponentKeys returns unusual but legal 256-byte RSA keys that key generation in Go never produces: 2048-bit
// keys with public exponents 3, 17 and 257 (encoders with a fast path for "the usual" exponent meet them here)
func RSASmallExponentKeys() []*rsa.PrivateKey {
	smallEOnce.Do(func() {
		// ... and keys whose modulus has 2047, 2044 and 2041 bits (e = 65537): it fills 256 bytes, but its bit length is no
		// multiple of 8 (key generation in Go always sets the top bits; keys from elsewhere need not)
		rest := append(append([]byte{}, rsaSmallEPEM...), rsaShortModulusPEM...)
		for {
			var blk *pem.Block
			blk, rest = pem.Decode(rest)
			if blk == nil {
				break
			}
			k, err := x509.ParsePKCS1PrivateKey(blk.Bytes)
			if err != nil {
				panic(err)
			}
			k.Precompute()
			smallE = append(smallE, k)
		}
	})
	return smallE
}

var (
	poolOnce sync.Once
	pool     []*rsa.PrivateKey
)

// RSACollidingPair returns two 2048-bit keys whose token key ids end in the same byte
// (smaller modulus first; the moduli differ by about 25%, so a message blinded for the larger key
// is rejected by the smaller one about one time in four).
func RSACollidingPair() [2]*rsa.PrivateKey {
	var out [2]*rsa.PrivateKey
	rest := rsaCollidePEM
	for i := 0; i < 2; i++ {
		var blk *pem.Block
		blk, rest = pem.Decode(rest)
		k, err := x509.ParsePKCS1PrivateKey(blk.Bytes)
		if err != nil {
			panic(err)
		}
		k.Precompute()
		out[i] = k
	}
	if out[0].N.Cmp(out[1].N) > 0 {
		out[0], out[1] = out[1], out[0]
	}
	return out
}

// RSAPool returns the committed pool of 2048-bit keys (the token codecs fix the size).
func RSAPool() []*rsa.PrivateKey {
	poolOnce.Do(func() {
		rest := rsaPoolPEM
		for {
			var blk *pem.Block
			blk, rest = pem.Decode(rest)
			if blk == nil {
				break
			}
			k, err := x509.ParsePKCS1PrivateKey(blk.Bytes)
			if err != nil {
				panic(err)
			}
			k.Precompute()
			pool = append(pool, k)
		}
		if len(pool) == 0 {
			panic("empty RSA pool")
		}
	})
	return pool
}

func RSAKey() *rapid.Generator[int] { return rapid.IntRange(0, len(RSAPool())-1) }

// Bytes32 draws a 32-byte string: all-zero, all-0xFF or arbitrary.
func Bytes32() *rapid.Generator[[]byte] {
	return rapid.Custom(func(t *rapid.T) []byte {
		switch rapid.IntRange(0, 9).Draw(t, "kind") {
		case 0:
			return make([]byte, 32)
		case 1:
			return bytes.Repeat([]byte{0xff}, 32)
		}
		return rapid.SliceOfN(rapid.Byte(), 32, 32).Draw(t, "b")
	})
}

func Seed() *rapid.Generator[[]byte] { return rapid.SliceOfN(rapid.Byte(), 32, 32) }

var challengeLens = []int{0, 1, 31, 32, 33, 55, 56, 63, 64, 65, 127, 128, 255, 256, 1000}

// Challenge draws the byte string whose SHA-256 becomes the token context: any length incl. empty.
func Challenge() *rapid.Generator[[]byte] {
	return rapid.Custom(func(t *rapid.T) []byte {
		var n int
		switch rapid.IntRange(0, 3).Draw(t, "lenkind") {
		case 0:
			n = rapid.SampledFrom(challengeLens).Draw(t, "len")
		case 1:
			n = rapid.SampledFrom([]int{65535, 70000}).Draw(t, "biglen")
			if rapid.IntRange(0, 7).Draw(t, "really") != 0 {
				n = 32
			}
		default:
			n = rapid.IntRange(0, 300).Draw(t, "len")
		}
		fill := rapid.Byte().Draw(t, "fill")
		b := Bytes(t, 0, 48, "head")
		out := bytes.Repeat([]byte{fill}, n)
		copy(out, b)
		return out
	})
}

// OPRFKey derives a VOPRF key from a seed (RFC 9497 DeriveKeyPair).
func OPRFKey(suite oprf.Suite, seed []byte) *oprf.PrivateKey {
	k, err := oprf.DeriveKey(suite, oprf.VerifiableMode, seed, []byte("verif"))
	if err != nil {
		panic(err)
	}
	return k
}

// FreshOPRFKey returns a copy whose lazily cached public key is not yet computed.
func FreshOPRFKey(suite oprf.Suite, k *oprf.PrivateKey) *oprf.PrivateKey {
	b, err := k.MarshalBinary()
	if err != nil {
		panic(err)
	}
	n := new(oprf.PrivateKey)
	if err := n.UnmarshalBinary(suite, b); err != nil {
		panic(err)
	}
	return n
}

func OPRFKeyID(k *oprf.PrivateKey) []byte {
	b, err := k.Public().MarshalBinary()
	if err != nil {
		panic(err)
	}
	h := sha256.Sum256(b)
	return h[:]
}

// AuthInput is type || nonce || context || key id, assembled here, not by pat-go.
func AuthInput(typ uint16, nonce, challenge, keyID []byte) []byte {
	ctx := sha256.Sum256(challenge)
	out := []byte{byte(typ >> 8), byte(typ)}
	out = append(out, nonce...)
	out = append(out, ctx[:]...)
	out = append(out, keyID...)
	return out
}

// VOPRFOutput is the full VOPRF evaluation of input under key, through circl directly.
func VOPRFOutput(suite oprf.Suite, key *oprf.PrivateKey, input []byte) []byte {
	out, err := oprf.NewVerifiableServer(suite, key).FullEvaluate(input)
	if err != nil {
		panic(err)
	}
	return out
}

// VerifyPSS is the standard-library check for type 2/3 authenticators.
func VerifyPSS(pub *rsa.PublicKey, input, auth []byte) error {
	d := sha512.Sum384(input)
	return rsa.VerifyPSS(pub, crypto.SHA384, d[:], auth, &rsa.PSSOptions{Hash: crypto.SHA384, SaltLength: 48})
}

func AuthLen(typ uint16) int {
	switch typ {
	case 1:
		return 48
	case 2, 3:
		return 256
	case 5:
		return 64
	}
	return -1
}

// CheckTokenBinding checks the structural half of C01/C02: the token is exactly
// type || nonce || SHA-256(challenge) || key id || authenticator of the type's length.
func CheckTokenBinding(tok tokens.Token, typ uint16, nonce, challenge, keyID []byte) error {
	input := AuthInput(typ, nonce, challenge, keyID)
	m := tok.Marshal()
	if len(m) != len(input)+AuthLen(typ) {
		return fmt.Errorf("token length %d, want %d", len(m), len(input)+AuthLen(typ))
	}
	if !bytes.Equal(m[:len(input)], input) {
		return fmt.Errorf("token prefix %x, want %x", m[:len(input)], input)
	}
	if len(tok.Authenticator) != AuthLen(typ) || !bytes.Equal(m[len(input):], tok.Authenticator) {
		return fmt.Errorf("authenticator length %d, want %d", len(tok.Authenticator), AuthLen(typ))
	}
	if tok.TokenType != typ || !bytes.Equal(tok.Nonce, nonce) || !bytes.Equal(tok.KeyID, keyID) {
		return fmt.Errorf("token fields differ from the request's")
	}
	ctx := sha256.Sum256(challenge)
	if !bytes.Equal(tok.Context, ctx[:]) {
		return fmt.Errorf("token context is not SHA-256(challenge)")
	}
	return nil
}

// ---------------------------------------------------------------- scalars

// P384Scalar draws a canonical non-zero P-384 scalar as 48 big-endian bytes.
func P384Scalar() *rapid.Generator[[]byte] {
	return rapid.Custom(func(t *rapid.T) []byte {
		n := elliptic.P384().Params().N
		raw := rapid.SliceOfN(rapid.Byte(), 56, 56).Draw(t, "raw")
		v := new(big.Int).SetBytes(raw)
		switch rapid.IntRange(0, 15).Draw(t, "kind") {
		case 0:
			v.SetInt64(1)
		case 1:
			v.Sub(n, big.NewInt(1))
		case 2:
			v.SetInt64(int64(rapid.IntRange(1, 1<<20).Draw(t, "small")))
		default:
			v.Mod(v, new(big.Int).Sub(n, big.NewInt(1)))
			v.Add(v, big.NewInt(1))
		}
		out := make([]byte, 48)
		v.FillBytes(out)
		return out
	})
}

// RistrettoScalar draws a canonical non-zero ristretto255 scalar (32 little-endian bytes).
func RistrettoScalar() *rapid.Generator[[]byte] {
	return rapid.Custom(func(t *rapid.T) []byte {
		raw := rapid.SliceOfN(rapid.Byte(), 64, 64).Draw(t, "raw")
		s := group.Ristretto255.HashToScalar(raw, []byte("verif scalar"))
		if s.IsZero() {
			s = group.Ristretto255.NewScalar().SetUint64(1)
		}
		if rapid.IntRange(0, 15).Draw(t, "kind") == 0 {
			s = group.Ristretto255.NewScalar().SetUint64(uint64(rapid.IntRange(1, 1000).Draw(t, "small")))
		}
		b, err := s.MarshalBinary()
		if err != nil {
			panic(err)
		}
		if rapid.IntRange(0, 11).Draw(t, "boundary") == 0 {
			// canonical scalars at the top of the range and around 2^252 (l = 2^252 + 27742317777372353535851937790883648493)
			l, _ := new(big.Int).SetString("7237005577332262213973186563042994240857116359379907606001950938285454250989", 10)
			p252 := new(big.Int).Lsh(big.NewInt(1), 252)
			v := rapid.SampledFrom([]*big.Int{new(big.Int).Sub(l, big.NewInt(1)), new(big.Int).Sub(l, big.NewInt(2)), p252, new(big.Int).Add(p252, big.NewInt(1)), new(big.Int).Sub(p252, big.NewInt(1)), new(big.Int).Lsh(big.NewInt(1), 251)}).Draw(t, "boundaryValue")
			be := v.FillBytes(make([]byte, 32))
			for i := range b {
				b[i] = be[31-i]
			}
		}
		return b
	})
}

// P384KeyBytes draws the minimal big-endian bytes of a value in [1, N): what callers pass as client secrets and blinds.
func P384KeyBytes() *rapid.Generator[[]byte] {
	return rapid.Custom(func(t *rapid.T) []byte {
		b := P384Scalar().Draw(t, "scalar")
		return new(big.Int).SetBytes(b).Bytes()
	})
}

// Uniform draws an index in [0, n) with a flat distribution. rapid's integer
// generators are deliberately biased towards small values (60% of
// IntRange(0,999) lands below 100), which starves high offsets and late table
// entries; two drawn words are mixed (splitmix64) and reduced instead. The
// result is still a pure function of drawn values, so replay and shrinking work.
func Uniform(t *rapid.T, n int, label string) int {
	if n <= 1 {
		return 0
	}
	a := rapid.Uint64().Draw(t, label+"/u1")
	b := rapid.Uint64().Draw(t, label+"/u2")
	x := a ^ (b<<32 | b>>32) ^ 0x9E3779B97F4A7C15
	x ^= x >> 30
	x *= 0xBF58476D1CE4E5B9
	x ^= x >> 27
	x *= 0x94D049BB133111EB
	x ^= x >> 31
	return int(x % uint64(n))
}

// UniformRange draws uniformly from [lo, hi].
func UniformRange(t *rapid.T, lo, hi int, label string) int { return lo + Uniform(t, hi-lo+1, label) }

// Pick draws one element uniformly.
func Pick[T any](t *rapid.T, xs []T, label string) T { return xs[Uniform(t, len(xs), label)] }

// Bytes draws a byte string whose LENGTH is uniform in [lo, hi] (rapid's SliceOfN
// strongly prefers short slices, which starves length boundaries such as 66-byte
// digests on P-521 or 255/256-byte payloads).
func Bytes(t *rapid.T, lo, hi int, label string) []byte {
	n := UniformRange(t, lo, hi, label+"/len")
	return rapid.SliceOfN(rapid.Byte(), n, n).Draw(t, label)
}

// Digest draws a message digest of length 0..128 biased to the byte lengths around the orders of the NIST curves.
func Digest(t *rapid.T, label string) []byte {
	if Uniform(t, 3, label+"/edge") == 0 {
		n := Pick(t, []int{0, 1, 20, 27, 28, 29, 31, 32, 33, 47, 48, 49, 63, 64, 65, 66, 67, 127, 128}, label+"/edgelen")
		return rapid.SliceOfN(rapid.Byte(), n, n).Draw(t, label)
	}
	return Bytes(t, 0, 128, label)
}
