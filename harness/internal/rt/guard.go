package rt

import (
	"crypto/aes"
	"crypto/cipher"
	"crypto/rand"
	"crypto/sha256"
	"fmt"
	"io"
	"os"
	"path/filepath"
	"runtime"
	"runtime/debug"
	"strings"
	"sync"
	"time"
)

// Mine reports whether item i of an enumeration belongs to this shard.
func Mine(i int) bool { return Shards <= 1 || i%Shards == Shard }

// ---------------------------------------------------------------- entropy

type drbg struct {
	mu sync.Mutex
	s  cipher.Stream
}

func (d *drbg) Read(p []byte) (int, error) {
	d.mu.Lock()
	defer d.mu.Unlock()
	for i := range p {
		p[i] = 0
	}
	d.s.XORKeyStream(p, p)
	return len(p), nil
}

// NewDRBG returns a deterministic AES-CTR reader keyed by SHA-256(seed).
func NewDRBG(seed []byte) io.Reader {
	k := sha256.Sum256(seed)
	blk, err := aes.NewCipher(k[:])
	if err != nil {
		panic(err)
	}
	return &drbg{s: cipher.NewCTR(blk, make([]byte, 16))}
}

var entropyMu sync.Mutex

// Entropy installs a DRBG seeded from the drawn seed as crypto/rand.Reader and
// returns the function that restores the previous reader. Every random choice
// made inside pat-go and its dependencies thereby becomes a function of a
// generated value.
func Entropy(seed []byte) (restore func()) {
	entropyMu.Lock()
	old := rand.Reader
	rand.Reader = NewDRBG(seed)
	return func() { rand.Reader = old; entropyMu.Unlock() }
}

// ---------------------------------------------------------------- call guard

// Outcome of a guarded call.
type Outcome struct {
	Panic      any
	Stack      string
	AllocBytes uint64
}

// AllocBudget is the allocation bound for one call on an input of n bytes:
// 8 MiB + 1024 x n. Legitimate calls here stay below 1 MiB (RSA, P-384 big.Int
// arithmetic); the defect class (length fields trusted from the wire) is >= 2^30.
func AllocBudget(n int) uint64 { return 8<<20 + 1024*uint64(n) }

// Guard runs f, recovering a panic and metering bytes allocated by this
// goroutine's process during the call (the caller runs one case at a time).
func Guard(f func()) (o Outcome) {
	var m0, m1 runtime.MemStats
	runtime.ReadMemStats(&m0)
	func() {
		defer func() {
			if r := recover(); r != nil {
				rethrowRapid(r)
				o.Panic = r
				o.Stack = string(debug.Stack())
			}
		}()
		f()
	}()
	runtime.ReadMemStats(&m1)
	o.AllocBytes = m1.TotalAlloc - m0.TotalAlloc
	return
}

// GuardLite recovers panics only (no allocation metering; ReadMemStats stops the world).
func GuardLite(f func()) (o Outcome) {
	defer func() {
		if r := recover(); r != nil {
			rethrowRapid(r)
			o.Panic = r
			o.Stack = string(debug.Stack())
		}
	}()
	f()
	return
}

// rethrowRapid lets rapid's own control-flow panics (a failed or skipped case, invalid data while
// shrinking) pass through a guard: they are not panics of the code under test.
func rethrowRapid(r any) {
	if strings.HasPrefix(fmt.Sprintf("%T", r), "rapid.") {
		panic(r)
	}
}

func (o Outcome) String() string {
	if o.Panic != nil {
		return fmt.Sprintf("panic: %v", o.Panic)
	}
	return fmt.Sprintf("alloc=%d", o.AllocBytes)
}

// ---------------------------------------------------------------- in-flight file

var (
	inflightOnce sync.Once
	inflightF    *os.File
)

// Inflight records the case that is about to run, so that the driver can
// attribute a fatal runtime error (out of memory, stack exhaustion), which
// cannot be recovered in-process, to an input. One small pwrite per case.
func Inflight(target string, input []byte) {
	if OutDir == "" {
		return
	}
	inflightOnce.Do(func() {
		f, err := os.OpenFile(filepath.Join(OutDir, fmt.Sprintf("inflight-%d", Shard)), os.O_CREATE|os.O_RDWR|os.O_TRUNC, 0o644)
		if err == nil {
			inflightF = f
		}
	})
	if inflightF == nil {
		return
	}
	hdr := fmt.Sprintf("%s\n%d\n", target, len(input))
	buf := make([]byte, 0, len(hdr)+len(input)+1)
	buf = append(buf, hdr...)
	buf = append(buf, input...)
	_ = inflightF.Truncate(0)
	_, _ = inflightF.WriteAt(buf, 0)
	armWatchdog()
}

// A case that does not come back: the in-flight record is already on disk, so the process ends itself (exit status 3)
// once one and the same record has been in flight for watchdogAfter, and the driver re-runs exactly that input in a
// fresh process under its own, longer budget before calling it a violation. This only shortens the wait for the test
// deadline; it is not a verdict by itself.
const watchdogAfter = 240 * time.Second

var (
	watchdogMu  sync.Mutex
	watchdogGen uint64
	watchdogOn  bool
)

// Returned tells the watchdog that the input recorded by Inflight has come back.
func Returned() {
	watchdogMu.Lock()
	watchdogRunning = false
	watchdogMu.Unlock()
}

var watchdogRunning bool

func armWatchdog() {
	watchdogMu.Lock()
	watchdogGen++
	watchdogRunning = true
	if !watchdogOn {
		watchdogOn = true
		go func() {
			var last uint64
			var since time.Time
			for {
				time.Sleep(5 * time.Second)
				watchdogMu.Lock()
				g := watchdogGen
				running := watchdogRunning
				watchdogMu.Unlock()
				if g != last || !running {
					last, since = g, time.Now()
					continue
				}
				if g != 0 && inflightSize() > 0 && time.Since(since) > watchdogAfter {
					fmt.Fprintf(os.Stderr, "watchdog: one input has been in flight for more than %v; ending the process so that the driver can re-run it alone\n", watchdogAfter)
					os.Exit(3)
				}
			}
		}()
	}
	watchdogMu.Unlock()
}

func inflightSize() int64 {
	if inflightF == nil {
		return 0
	}
	st, err := inflightF.Stat()
	if err != nil {
		return 0
	}
	return st.Size()
}

// InflightDone clears the in-flight record (called when the test function ends normally).
func InflightDone() {
	if inflightF != nil {
		_ = inflightF.Truncate(0)
	}
}

// ---------------------------------------------------------------- plain (non-rapid) failures

var (
	reportedMu sync.Mutex
	reported   = map[string]bool{}
)

type errorer interface {
	Helper()
	Errorf(format string, args ...any)
}

// Report is Fail for enumeration loops outside rapid: it marks the test failed
// but lets the loop continue, prints each signature once, and saves the failing
// (target, input) pair as a replayable case file for the driver.
func Report(t errorer, sig, target string, input []byte, format string, args ...any) {
	t.Helper()
	if IsKnown(sig) {
		subsMu.Lock()
		known[sig]++
		subsMu.Unlock()
		return
	}
	reportedMu.Lock()
	seen := reported[sig]
	reported[sig] = true
	reportedMu.Unlock()
	if seen {
		return
	}
	t.Errorf("SIG=%s %s", sig, fmt.Sprintf(format, args...))
	if OutDir == "" || target == "" {
		return
	}
	dir := filepath.Join(OutDir, "cases")
	_ = os.MkdirAll(dir, 0o755)
	h := sha256.Sum256(append([]byte(target+"\x00"), input...))
	base := filepath.Join(dir, fmt.Sprintf("%s-%x", safe(sig), h[:5]))
	_ = os.WriteFile(base+".case", append([]byte(fmt.Sprintf("%s\n%d\n", target, len(input))), input...), 0o644)
	_ = os.WriteFile(base+".case.sig", []byte(sig), 0o644)
}
