// Package rt is the run-time support shared by every property package:
// tier/seed configuration, rapid wrapper, statistics for the evidence file,
// known-finding matching, a deterministic entropy source, call guards
// (panic / allocation metering), and the in-flight file for crash attribution.
package rt

import (
	"encoding/binary"
	"encoding/hex"
	"encoding/json"
	"flag"
	"fmt"
	"hash/fnv"
	"os"
	"path/filepath"
	"sort"
	"strconv"
	"strings"
	"sync"
	"sync/atomic"
	"testing"

	"pgregory.net/rapid"
)

// ---------------------------------------------------------------- configuration

var (
	Tier     = envOr("VERIF_TIER", "quick")
	Property = envOr("VERIF_PROPERTY", "C00")
	BaseSeed = envUint("VERIF_RAPID_SEED", 1)
	Shard    = int(envUint("VERIF_SHARD", 0))
	Shards   = int(envUint("VERIF_SHARDS", 1))
	OutDir   = os.Getenv("VERIF_OUT") // directory for stats files; empty = no stats
	RepoDir  = envOr("VERIF_REPO", "/repo")
	VerifDir = envOr("VERIF_DIR", "/verif")
)

func envOr(k, d string) string {
	if v := os.Getenv(k); v != "" {
		return v
	}
	return d
}

func envUint(k string, d uint64) uint64 {
	if v := os.Getenv(k); v != "" {
		if n, err := strconv.ParseUint(v, 10, 64); err == nil {
			return n
		}
	}
	return d
}

func Thorough() bool { return Tier == "thorough" }

// N picks a per-process count for the tier; thorough counts are split over shards.
func N(quick, thorough int) int {
	if !Thorough() {
		return quick
	}
	n := thorough / Shards
	if n < 1 {
		n = 1
	}
	return n
}

func seedFor(name string) uint64 {
	h := fnv.New64a()
	h.Write([]byte(name))
	s := BaseSeed*0x9E3779B97F4A7C15 + h.Sum64() + uint64(Shard)*0xD1B54A32D192ED03
	return s | 1 // rapid treats 0 as "random"
}

// Check runs a rapid property with tier-dependent case count and a seed that
// is a pure function of VERIF_SEED, the test name and the shard number.
// When -rapid.failfile is given (replay) rapid ignores seed and count.
func Check(t *testing.T, quick, thorough int, prop func(*rapid.T)) {
	if capturing != nil {
		if *capturing == nil {
			*capturing = prop
		}
		return
	}
	t.Helper()
	n := N(quick, thorough)
	if err := flag.Set("rapid.checks", strconv.Itoa(n)); err != nil {
		t.Fatalf("rapid.checks: %v", err)
	}
	if err := flag.Set("rapid.seed", strconv.FormatUint(seedFor(t.Name()), 10)); err != nil {
		t.Fatalf("rapid.seed: %v", err)
	}
	requested.Store(t.Name(), n)
	var calls int64
	rapid.Check(t, func(rt *rapid.T) {
		atomic.AddInt64(&calls, 1)
		prop(rt)
	})
	replaying := false
	if f := flag.Lookup("rapid.failfile"); f != nil && f.Value.String() != "" {
		replaying = true
	}
	if !t.Failed() && !replaying && atomic.LoadInt64(&calls) < int64(n) {
		// rapid stops silently at the test deadline and still reports OK
		subsMu.Lock()
		shortRuns = append(shortRuns, fmt.Sprintf("%s: %d of %d cases", t.Name(), calls, n))
		subsMu.Unlock()
	}
}

var shortRuns []string

var requested sync.Map

// ---------------------------------------------------------------- statistics

type Sub struct {
	mu          sync.Mutex
	Name        string            `json:"name"`
	Evaluations int64             `json:"evaluations"`
	Classes     map[string]int64  `json:"classes"`
	EnumDist    int64             `json:"enumerated_distinct"` // distinct by construction (enumerations)
	Exhaustive  []string          `json:"exhaustive,omitempty"`
	Samples     []json.RawMessage `json:"samples"`
	Rule        string            `json:"rule,omitempty"`
	Excluded    map[string]int64  `json:"excluded,omitempty"`
	hashes      map[uint64]struct{}
	sampleSeen  int64
}

var (
	subsMu sync.Mutex
	subs   = map[string]*Sub{}
	known  = map[string]int64{} // signature -> hits
)

// S returns the statistics bucket of a sub-check.
func S(name string) *Sub {
	subsMu.Lock()
	defer subsMu.Unlock()
	s, ok := subs[name]
	if !ok {
		s = &Sub{Name: name, Classes: map[string]int64{}, Excluded: map[string]int64{}, hashes: map[uint64]struct{}{}}
		subs[name] = s
	}
	return s
}

func (s *Sub) SetRule(r string) *Sub { s.mu.Lock(); s.Rule = r; s.mu.Unlock(); return s }

// Eval counts one generated case / execution.
func (s *Sub) Eval() { s.mu.Lock(); s.Evaluations++; s.mu.Unlock() }

func (s *Sub) EvalN(n int64) { s.mu.Lock(); s.Evaluations += n; s.mu.Unlock() }

// Class counts a label of the generator's distribution.
func (s *Sub) Class(label string) { s.mu.Lock(); s.Classes[label]++; s.mu.Unlock() }

func (s *Sub) ClassN(label string, n int64) { s.mu.Lock(); s.Classes[label] += n; s.mu.Unlock() }

// Exclude counts a case that was skipped by construction (e.g. a known finding).
func (s *Sub) Exclude(label string) { s.mu.Lock(); s.Excluded[label]++; s.mu.Unlock() }

// Nontrivial records one non-trivial case, identified by the given parts.
func (s *Sub) Nontrivial(parts ...[]byte) {
	h := fnv.New64a()
	var l [4]byte
	for _, p := range parts {
		binary.LittleEndian.PutUint32(l[:], uint32(len(p)))
		h.Write(l[:])
		h.Write(p)
	}
	v := h.Sum64()
	s.mu.Lock()
	s.hashes[v] = struct{}{}
	s.mu.Unlock()
}

// NontrivialEnum records n non-trivial cases that are distinct by construction
// (members of an enumeration); they are not hashed.
func (s *Sub) NontrivialEnum(n int64) { s.mu.Lock(); s.EnumDist += n; s.mu.Unlock() }

func (s *Sub) MarkExhaustive(desc string) {
	s.mu.Lock()
	for _, e := range s.Exhaustive {
		if e == desc {
			s.mu.Unlock()
			return
		}
	}
	s.Exhaustive = append(s.Exhaustive, desc)
	s.mu.Unlock()
}

// Sample keeps a few of the actual cases (the 1st, 2nd, 4th, 8th ... offered, at most 6).
func (s *Sub) Sample(v func() any) {
	s.mu.Lock()
	s.sampleSeen++
	n := s.sampleSeen
	keep := n&(n-1) == 0 && len(s.Samples) < 6
	s.mu.Unlock()
	if !keep {
		return
	}
	b, err := json.Marshal(v())
	if err != nil {
		b, _ = json.Marshal(fmt.Sprintf("%v", v()))
	}
	if len(b) > 4096 {
		b, _ = json.Marshal(string(b[:4000]) + "...(truncated)")
	}
	s.mu.Lock()
	s.Samples = append(s.Samples, b)
	s.mu.Unlock()
}

func Hex(b []byte) string {
	if len(b) > 96 {
		return hex.EncodeToString(b[:48]) + fmt.Sprintf("...(%d bytes)...", len(b)) + hex.EncodeToString(b[len(b)-16:])
	}
	return hex.EncodeToString(b)
}

// ---------------------------------------------------------------- known findings

type Finding struct {
	Property  string `json:"property"`
	Status    string `json:"status"` // "known" | "fixed"
	Signature string `json:"signature"`
	Commit    string `json:"commit,omitempty"`
	What      string `json:"what"`
}

var (
	findingsOnce sync.Once
	findings     []Finding
)

func loadFindings() {
	b, err := os.ReadFile(filepath.Join(VerifDir, "known_findings.json"))
	if err != nil {
		return
	}
	var f struct {
		Findings []Finding `json:"findings"`
	}
	if json.Unmarshal(b, &f) == nil {
		findings = f.Findings
	}
}

// IsKnown reports whether a failure signature is listed as a known (unrepaired) finding.
// A "fixed" entry suppresses nothing.
func IsKnown(sig string) bool {
	findingsOnce.Do(loadFindings)
	for _, f := range findings {
		if f.Status == "known" && f.Property == Property && f.Signature == sig {
			return true
		}
	}
	return false
}

type failer interface {
	Helper()
	Fatalf(format string, args ...any)
}

// Fail reports a violation with a signature. If the signature is a listed known
// finding the hit is counted (the driver prints KNOWN-FINDING) and Fail returns
// so that the search continues behind it; otherwise the test fails.
func Fail(t failer, sig string, format string, args ...any) {
	t.Helper()
	if IsKnown(sig) {
		subsMu.Lock()
		known[sig]++
		subsMu.Unlock()
		return
	}
	t.Fatalf("SIG=%s %s", sig, fmt.Sprintf(format, args...))
}

// ---------------------------------------------------------------- flush / merge

type shardFile struct {
	Property  string           `json:"property"`
	Shard     int              `json:"shard"`
	Subs      []*Sub           `json:"subs"`
	Known     map[string]int64 `json:"known"`
	Requested map[string]int   `json:"requested"`
	ShortRuns []string         `json:"short_runs,omitempty"`
}

// Flush writes this process's statistics (JSON + one binary hash file per sub-check).
func Flush() {
	if OutDir == "" {
		return
	}
	subsMu.Lock()
	defer subsMu.Unlock()
	sf := shardFile{Property: Property, Shard: Shard, Known: known, Requested: map[string]int{}, ShortRuns: shortRuns}
	requested.Range(func(k, v any) bool { sf.Requested[k.(string)] = v.(int); return true })
	names := make([]string, 0, len(subs))
	for n := range subs {
		names = append(names, n)
	}
	sort.Strings(names)
	for _, n := range names {
		s := subs[n]
		sf.Subs = append(sf.Subs, s)
		hs := make([]uint64, 0, len(s.hashes))
		for h := range s.hashes {
			hs = append(hs, h)
		}
		sort.Slice(hs, func(i, j int) bool { return hs[i] < hs[j] })
		buf := make([]byte, 8*len(hs))
		for i, h := range hs {
			binary.LittleEndian.PutUint64(buf[8*i:], h)
		}
		_ = os.WriteFile(filepath.Join(OutDir, fmt.Sprintf("shard-%d.%s.hashes", Shard, safe(n))), buf, 0o644)
	}
	b, _ := json.Marshal(sf)
	_ = os.WriteFile(filepath.Join(OutDir, fmt.Sprintf("shard-%d.json", Shard)), b, 0o644)
}

func safe(s string) string {
	return strings.Map(func(r rune) rune {
		if r >= 'a' && r <= 'z' || r >= 'A' && r <= 'Z' || r >= '0' && r <= '9' || r == '-' || r == '_' {
			return r
		}
		return '_'
	}, s)
}

// Merge reads every shard file in dir and prints the merged coverage object
// (JSON) on stdout. The driver adds tier, seed, wall time and violations.
func Merge(dir string) error {
	files, _ := filepath.Glob(filepath.Join(dir, "shard-*.json"))
	sort.Strings(files)
	merged := map[string]*Sub{}
	hashes := map[string]map[uint64]struct{}{}
	knownAll := map[string]int64{}
	reqAll := map[string]int{}
	var shortAll []string
	var order []string
	for _, f := range files {
		b, err := os.ReadFile(f)
		if err != nil {
			return err
		}
		var sf shardFile
		if err := json.Unmarshal(b, &sf); err != nil {
			return fmt.Errorf("%s: %v", f, err)
		}
		for k, v := range sf.Known {
			knownAll[k] += v
		}
		for k, v := range sf.Requested {
			reqAll[k] += v
		}
		shortAll = append(shortAll, sf.ShortRuns...)
		for _, s := range sf.Subs {
			m, ok := merged[s.Name]
			if !ok {
				m = &Sub{Name: s.Name, Classes: map[string]int64{}, Excluded: map[string]int64{}}
				merged[s.Name] = m
				hashes[s.Name] = map[uint64]struct{}{}
				order = append(order, s.Name)
			}
			m.Evaluations += s.Evaluations
			// enumerations are split over shards by the checks themselves (rt.Mine), so counts add up
			m.EnumDist += s.EnumDist
			for k, v := range s.Classes {
				m.Classes[k] += v
			}
			for k, v := range s.Excluded {
				m.Excluded[k] += v
			}
			for _, e := range s.Exhaustive {
				found := false
				for _, x := range m.Exhaustive {
					found = found || x == e
				}
				if !found {
					m.Exhaustive = append(m.Exhaustive, e)
				}
			}
			if len(m.Samples) < 6 {
				m.Samples = append(m.Samples, s.Samples...)
				if len(m.Samples) > 6 {
					m.Samples = m.Samples[:6]
				}
			}
			if m.Rule == "" {
				m.Rule = s.Rule
			}
			hb, err := os.ReadFile(filepath.Join(dir, fmt.Sprintf("shard-%d.%s.hashes", sf.Shard, safe(s.Name))))
			if err == nil {
				for i := 0; i+8 <= len(hb); i += 8 {
					hashes[s.Name][binary.LittleEndian.Uint64(hb[i:])] = struct{}{}
				}
			}
		}
	}
	sort.Strings(order)
	type subOut struct {
		Name               string            `json:"name"`
		Evaluations        int64             `json:"evaluations"`
		DistinctNontrivial int64             `json:"distinct_nontrivial"`
		Rule               string            `json:"rule,omitempty"`
		Classes            map[string]int64  `json:"classes,omitempty"`
		Excluded           map[string]int64  `json:"excluded,omitempty"`
		Exhaustive         []string          `json:"exhaustive_subdomains,omitempty"`
		Samples            []json.RawMessage `json:"samples,omitempty"`
	}
	out := struct {
		Evaluations        int64             `json:"evaluations"`
		DistinctNontrivial int64             `json:"distinct_nontrivial"`
		Rule               string            `json:"rule"`
		Samples            []json.RawMessage `json:"samples"`
		Exhaustive         bool              `json:"exhaustive"`
		Sub                []subOut          `json:"sub_checks"`
		Known              map[string]int64  `json:"known_finding_hits,omitempty"`
		Requested          map[string]int    `json:"rapid_cases_requested,omitempty"`
		Shards             int               `json:"shards"`
		ShortRuns          []string          `json:"short_runs,omitempty"`
	}{Known: knownAll, Requested: reqAll, Shards: len(files), ShortRuns: shortAll}
	var rules []string
	for _, n := range order {
		m := merged[n]
		d := int64(len(hashes[n])) + m.EnumDist
		out.Evaluations += m.Evaluations
		out.DistinctNontrivial += d
		if m.Rule != "" {
			rules = append(rules, n+": "+m.Rule)
		}
		for i, s := range m.Samples {
			if i < 2 {
				w, _ := json.Marshal(map[string]json.RawMessage{n: s})
				out.Samples = append(out.Samples, w)
			}
		}
		so := subOut{Name: n, Evaluations: m.Evaluations, DistinctNontrivial: d, Rule: m.Rule, Classes: m.Classes, Exhaustive: m.Exhaustive, Samples: m.Samples}
		if len(m.Excluded) > 0 {
			so.Excluded = m.Excluded
		}
		out.Sub = append(out.Sub, so)
	}
	out.Rule = strings.Join(rules, " | ")
	b, err := json.Marshal(out)
	if err != nil {
		return err
	}
	_, err = os.Stdout.Write(b)
	return err
}

// Main is called from every property package's TestMain.
func Main(m *testing.M) {
	if d := os.Getenv("VERIF_MERGE"); d != "" {
		if err := Merge(d); err != nil {
			fmt.Fprintln(os.Stderr, "merge:", err)
			os.Exit(3)
		}
		os.Exit(0)
	}
	code := m.Run()
	Flush()
	os.Exit(code)
}
