package rt

import (
	"io"
	"testing"

	"pgregory.net/rapid"
)

// FuzzProp runs a rapid property under the native, coverage-guided fuzzer: the fuzzer's byte string is the
// stream rapid draws from, so every generator class of the property stays reachable while coverage feedback
// from pat-go steers the mutation. The seed corpus is a handful of pseudo-random streams long enough for a
// complete case (an empty stream ends most cases at the first draw, which teaches the fuzzer nothing).
func FuzzProp(f *testing.F, prop func(*rapid.T)) {
	for i, n := range []int{256, 1024, 4096, 4096, 16384, 16384, 65536} {
		b := make([]byte, n)
		if _, err := io.ReadFull(NewDRBG([]byte{'f', 'u', 'z', 'z', byte(i)}), b); err != nil {
			f.Fatal(err)
		}
		f.Add(b)
	}
	f.Fuzz(rapid.MakeFuzz(prop))
}

var capturing *func(*rapid.T)

// Capture returns the property that a test function hands to Check (the first one, if it calls Check more
// than once) without running it, so that the very same property can be driven by the native fuzzer. The test
// function is called with a nil *testing.T: it must not use t before its first call to Check.
func Capture(test func(*testing.T)) func(*rapid.T) {
	var p func(*rapid.T)
	capturing = &p
	defer func() { capturing = nil }()
	test(nil)
	if p == nil {
		panic("rt.Capture: the test function never reached rt.Check")
	}
	return p
}
