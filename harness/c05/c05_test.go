// C05 — generic batch issuance keeps order and count and isolates failures.
package c05

import (
	"bytes"
	"fmt"
	"math/big"
	"strings"
	"testing"

	"github.com/cloudflare/circl/oprf"
	"github.com/cloudflare/pat-go/tokens"
	"github.com/cloudflare/pat-go/tokens/batched"
	"github.com/cloudflare/pat-go/tokens/type1"
	"github.com/cloudflare/pat-go/tokens/type2"
	"pgregory.net/rapid"

	"verifharness/internal/gen"
	"verifharness/internal/ref"
	"verifharness/internal/rt"
)

func TestMain(m *testing.M) { rt.Main(m) }

type item struct {
	crafted bool   // built by the harness without a client state; may or may not evaluate
	kind    string // t1-known, t1-unknown, t1-malformed, t2-known, t2-unknown, t2-malformed
	req     tokens.TokenRequestWithDetails
	sess    *gen.Session // state for known-key requests (nil otherwise)
}

func last(b []byte) byte { return b[len(b)-1] }

func TestBatches(t *testing.T) {
	s := rt.S("batches").SetRule("issuer configuration of 0..2 type-1 and 0..2 type-2 issuers with distinct truncated key ids; batch of 1..8 (thorough 1..20) requests over {type-1 known/unknown key/malformed element, type-2 known/unknown key/malformed message, type without configured issuer}; in-memory and wire paths; model: entry present iff a configured issuer of that type and truncated id evaluates the request (computed by calling the per-type issuer directly); oracle: response decodes, one entry per request in order, present iff expected, present entries finalize under their own state to verifying tokens, and the good requests alone give the same deterministic response parts. non-trivial = batch with >=1 failing and >=1 succeeding request; distinct by batch bytes")
	maxLen := 8
	if rt.Thorough() {
		maxLen = 20
	}
	rt.Check(t, 110, 12000, func(t *rapid.T) {
		defer rt.Entropy(gen.Seed().Draw(t, "entropy"))()
		// ---- issuer configuration (truncated-id collisions are outside the property's domain: see DESIGN.md)
		n1 := rapid.IntRange(0, 2).Draw(t, "type1Issuers")
		n2 := rapid.IntRange(0, 2).Draw(t, "type2Issuers")
		if gen.Uniform(t, 8, "manyIssuers") == 0 {
			// a configuration with MANY issuers (an issuer table with a capacity, or one indexed by a few bits of the id)
			n1 = gen.Pick(t, []int{9, 17, 33, 70}, "manyType1")
			n2 = gen.Pick(t, []int{2, 6}, "manyType2")
			s.Class("many-issuers")
		}
		var iss1 []*type1.BasicPrivateIssuer
		var keys1 []*oprf.PrivateKey
		used1 := map[byte]bool{}
		seed := gen.Seed().Draw(t, "keyseed")
		ctr := byte(0)
		// wantLast >= 0: derive a type-1 key whose truncated id equals that byte (a collision ACROSS token types, which is
		// harmless by the property: issuers are looked up by type and truncated id)
		wantLast := -1
		ctr2 := 0
		nextKey1 := func() *oprf.PrivateKey {
			for {
				ctr2++
				k := gen.OPRFKey(oprf.SuiteP384, append(append([]byte{}, seed...), byte(ctr2), byte(ctr2>>8)))
				id := gen.OPRFKeyID(k)
				if wantLast >= 0 && int(last(id)) != wantLast {
					continue
				}
				if !used1[last(id)] {
					used1[last(id)] = true
					wantLast = -1
					return k
				}
				s.Exclude("type1-truncated-id-collision-skipped")
			}
		}
		_ = ctr
		pool := gen.RSAPool()
		perm := rapid.Permutation([]int{0, 1, 2, 3, 4, 5, 6, 7}).Draw(t, "rsaperm")
		crossTypeCollision := rapid.Bool().Draw(t, "crossTypeCollision")
		for i := 0; i < n1; i++ {
			if crossTypeCollision && i == 0 {
				wantLast = int(last(type2.NewBasicPublicIssuer(pool[perm[0]]).TokenKeyID())) // the first type-2 candidate's byte
			}
			k := nextKey1()
			keys1 = append(keys1, k)
			iss1 = append(iss1, type1.NewBasicPrivateIssuer(k))
		}
		if crossTypeCollision && n1 == 0 {
			wantLast = int(last(type2.NewBasicPublicIssuer(pool[perm[0]]).TokenKeyID())) // an UNKNOWN type-1 key id that equals a type-2 issuer's byte
		}
		unknown1 := nextKey1()
		var iss2 []*type2.BasicPublicIssuer
		var rsaIdx []int
		used2 := map[byte]bool{}
		unknown2 := -1
		for _, idx := range perm {
			id := type2.NewBasicPublicIssuer(pool[idx]).TokenKeyID()
			if used2[last(id)] {
				s.Exclude("type2-truncated-id-collision-skipped")
				continue
			}
			used2[last(id)] = true
			if len(iss2) < n2 {
				iss2 = append(iss2, type2.NewBasicPublicIssuer(pool[idx]))
				rsaIdx = append(rsaIdx, idx)
			} else if unknown2 < 0 {
				unknown2 = idx
			}
		}
		var all []batched.Issuer
		for _, i := range iss1 {
			all = append(all, gen.Batch1{I: i})
		}
		for _, i := range iss2 {
			all = append(all, gen.Batch2{I: i})
		}
		if len(all) > 1 {
			all = rapid.Permutation(all).Draw(t, "issuerOrder") // e.g. (type 1, type 2, type 1)
		}
		// the constructor gets its own slice, which must come back unchanged
		ctorArgs := append([]batched.Issuer{}, all...)
		bi := batched.NewBasicBatchedIssuer(ctorArgs...)
		for i := range ctorArgs {
			if ctorArgs[i] != all[i] {
				rt.Fail(t, "C05/constructor-wrote-to-its-argument", "NewBasicBatchedIssuer(list...) changed the caller's slice: entry %d of %d is no longer the issuer that was passed there (types in the order given: %v)", i, len(all), typesOf(all))
				return
			}
		}
		// (the caller's slice is left alone afterwards: whether a constructor may keep referring to the slice it was given is
		// not something this property decides)

		// in half the cases the wire path decodes every batch of the case into ONE request object (a per-connection object)
		reuseDecodeTarget := rapid.Bool().Draw(t, "reuseDecodeTarget")
		decodeTarget := new(batched.BatchedTokenRequest)
		// several batches are evaluated by the SAME batch issuer object, one after the other
		nBatches := gen.UniformRange(t, 1, 3, "batches")
		for batchNo := 0; batchNo < nBatches; batchNo++ {
			// ---- batch
			kinds := []string{"t1-known", "t1-unknown", "t1-malformed", "t2-known", "t2-unknown", "t2-malformed"}
			n := gen.UniformRange(t, 1, maxLen, "batchLen")
			if n1 >= 9 {
				// many issuers: long batches too, so that one batch names more distinct (type, key id) pairs than any small table holds and comes back to earlier ones
				n = gen.UniformRange(t, 12, 45, "longBatchLen")
			}
			var items []item
			for i := 0; i < n; i++ {
				kind := gen.Pick(t, kinds, "kind")
				it := item{kind: kind}
				switch kind {
				case "t1-known", "t1-malformed":
					key := unknown1
					if len(keys1) > 0 {
						key = gen.Pick(t, keys1, "key1")
					} else {
						it.kind = strings.Replace(kind, "t1-", "t1-nosuchtype-", 1)
					}
					sess, err := gen.NewSession(t, 1, gen.SessionOpts{OKey: key})
					if err != nil {
						t.Fatalf("harness: %v", err)
					}
					r := sess.State1.Request()
					if kind == "t1-malformed" {
						bad := append([]byte{}, r.BlindedReq...)
						switch gen.Uniform(t, 3, "badkind") {
						case 0:
							bad[0] = 0x05 // no such point format
						case 1:
							for i := 1; i < len(bad); i++ {
								bad[i] = 0xff // x >= p
							}
						case 2:
							bad = make([]byte, 49) // identity / all-zero encoding
						}
						r = &type1.BasicPrivateTokenRequest{TokenKeyID: r.TokenKeyID, BlindedReq: bad}
						sess = nil
					}
					it.req, it.sess = r, sess
				case "t1-unknown":
					sess, err := gen.NewSession(t, 1, gen.SessionOpts{OKey: unknown1})
					if err != nil {
						t.Fatalf("harness: %v", err)
					}
					it.req = sess.State1.Request()
				case "t2-known", "t2-malformed":
					idx := unknown2
					if len(rsaIdx) > 0 {
						idx = gen.Pick(t, rsaIdx, "key2")
					} else {
						it.kind = strings.Replace(kind, "t2-", "t2-nosuchtype-", 1)
					}
					if idx < 0 {
						idx = 0
					}
					sess, err := gen.NewSession(t, 2, gen.SessionOpts{RKeyIdx: idx})
					if err != nil {
						t.Fatalf("harness: %v", err)
					}
					r := sess.State2.Request()
					if kind == "t2-malformed" {
						// messages at and around the modulus and the trivial ones; whether the issuer signs them is
						// whatever the per-type issuer says (model below) - 0, 1 and N-1 are signed, N is not
						bad := bytes.Repeat([]byte{0xff}, 256) // >= N
						nMod := gen.RSAPool()[idx].N
						be := func(v *big.Int) []byte { out := make([]byte, 256); v.FillBytes(out); return out }
						switch gen.Uniform(t, 7, "badkind2") {
						case 1:
							bad = be(nMod)
						case 2:
							bad = be(new(big.Int).Add(nMod, big.NewInt(1)))
						case 3:
							bad = be(new(big.Int).Sub(nMod, big.NewInt(1)))
						case 4:
							bad = be(big.NewInt(0))
						case 5:
							bad = be(big.NewInt(1))
						}
						r = &type2.BasicPublicTokenRequest{TokenKeyID: r.TokenKeyID, BlindedReq: bad}
						sess = nil
						it.crafted = true
					}
					it.req, it.sess = r, sess
				case "t2-unknown":
					if unknown2 < 0 {
						continue
					}
					sess, err := gen.NewSession(t, 2, gen.SessionOpts{RKeyIdx: unknown2})
					if err != nil {
						t.Fatalf("harness: %v", err)
					}
					it.req = sess.State2.Request()
				}
				items = append(items, it)
				// now and then the request is followed by a COPY of it that differs only in the truncated key id (same blinded
				// element / message): addressed to nobody, or to another configured issuer of the type. Whether it is answered is
				// what the per-type issuers say (model below); it has no client state of its own.
				if gen.Uniform(t, 6, "copyWithOtherKeyID") == 0 {
					cp := item{kind: it.kind + "+copy-other-keyid", crafted: true}
					otherID := byte(gen.Uniform(t, 256, "otherKeyID"))
					switch r := it.req.(type) {
					case *type1.BasicPrivateTokenRequest:
						if len(iss1) > 1 && rapid.Bool().Draw(t, "idOfAnotherIssuer") {
							otherID = last(gen.Pick(t, iss1, "otherIssuer1").TokenKeyID())
						}
						cp.req = &type1.BasicPrivateTokenRequest{TokenKeyID: otherID, BlindedReq: append([]byte{}, r.BlindedReq...)}
					case *type2.BasicPublicTokenRequest:
						if len(iss2) > 1 && rapid.Bool().Draw(t, "idOfAnotherIssuer") {
							otherID = last(gen.Pick(t, iss2, "otherIssuer2").TokenKeyID())
						}
						cp.req = &type2.BasicPublicTokenRequest{TokenKeyID: otherID, BlindedReq: append([]byte{}, r.BlindedReq...)}
					}
					if cp.req != nil && cp.req.TruncatedTokenKeyID() != it.req.TruncatedTokenKeyID() {
						if rapid.Bool().Draw(t, "copyFirst") {
							items = append(items[:len(items)-1], cp, it)
						} else {
							items = append(items, cp)
						}
					}
				}
			}
			if len(items) == 0 {
				continue
			}
			s.Eval()

			// ---- model
			expected := make([]bool, len(items))
			for i, it := range items {
				for _, is := range all {
					if is.Type() != it.req.Type() || last(is.TokenKeyID()) != it.req.TruncatedTokenKeyID() {
						continue
					}
					if _, err := is.Evaluate(it.req); err == nil {
						expected[i] = true
					}
				}
				if expected[i] && it.sess == nil && !it.crafted {
					t.Fatalf("harness: a malformed request evaluated successfully (%s)", it.kind)
				}
				s.Class(it.kind)
			}
			nGood, nBad := 0, 0
			for _, e := range expected {
				if e {
					nGood++
				} else {
					nBad++
				}
			}

			evaluate := func(list []item, wire bool) ([][]byte, string) {
				reqs := make([]tokens.TokenRequestWithDetails, len(list))
				for i, it := range list {
					reqs[i] = it.req
				}
				br, err := batched.NewBasicClient().CreateTokenRequest(reqs)
				if err != nil {
					return nil, fmt.Sprintf("client CreateTokenRequest: %v", err)
				}
				if wire {
					enc := append([]byte{}, br.Marshal()...)
					br = new(batched.BatchedTokenRequest)
					if reuseDecodeTarget {
						br = decodeTarget // the connection's request object, decoded into again and again
					}
					if !br.Unmarshal(enc) {
						return nil, "batch request does not decode"
					}
				}
				var respEnc []byte
				var rerr error
				if o := rt.GuardLite(func() { respEnc, rerr = bi.EvaluateBatch(br) }); o.Panic != nil {
					return nil, fmt.Sprintf("EvaluateBatch panicked: %v", o.Panic)
				}
				if rerr != nil {
					return nil, fmt.Sprintf("EvaluateBatch: %v", rerr)
				}
				var out [][]byte
				var derr error
				if o := rt.GuardLite(func() { out, derr = batched.UnmarshalBatchedTokenResponses(append([]byte{}, respEnc...)) }); o.Panic != nil {
					return nil, fmt.Sprintf("response decoder panicked: %v (response %s)", o.Panic, rt.Hex(respEnc))
				}
				if derr != nil {
					return nil, fmt.Sprintf("response list does not decode: %v (response %s)", derr, rt.Hex(respEnc))
				}
				return out, ""
			}

			wire := rapid.Bool().Draw(t, "wire")
			if wire {
				s.Class("path:wire")
			} else {
				s.Class("path:memory")
			}
			resps, msg := evaluate(items, wire)
			mixed := ""
			if nGood > 0 && nBad > 0 {
				mixed = "/mixed"
			} else if nBad > 0 {
				mixed = "/allfail"
			}
			if msg != "" {
				rt.Fail(t, "C05/response-undecodable"+mixed, "%s; batch %v expected %v", msg, kindsOf(items), expected)
				return
			}
			if len(resps) != len(items) {
				rt.Fail(t, "C05/count", "%d response entries for %d requests; batch %v", len(resps), len(items), kindsOf(items))
				return
			}
			for i, it := range items {
				present := len(resps[i]) > 0
				if present != expected[i] {
					rt.Fail(t, "C05/presence", "entry %d (%s) present=%v, model says %v; batch %v", i, it.kind, present, expected[i], kindsOf(items))
					return
				}
				if !present {
					continue
				}
				if it.sess == nil {
					// crafted message that the per-type issuer signs: no client state to finalize with
					if want := ref.BasicResponseLen(it.req.Type()); len(resps[i]) != want {
						rt.Fail(t, "C05/finalize", "entry %d (%s): %d-byte response to a type-%d request (expected %d)", i, it.kind, len(resps[i]), it.req.Type(), want)
						return
					}
					continue
				}
				toks, err := it.sess.Finalize(resps[i])
				if err != nil {
					rt.Fail(t, "C05/finalize", "entry %d (%s) does not finalize under its own request state: %v; batch %v", i, it.kind, err, kindsOf(items))
					return
				}
				if err := it.sess.CheckTokens(toks); err != nil {
					rt.Fail(t, "C05/token", "entry %d (%s): %v", i, it.kind, err)
					return
				}
			}
			// ---- metamorphic isolation: the good requests alone
			if nGood > 0 && nBad > 0 {
				var goodItems []item
				var goodIdx []int
				for i, it := range items {
					if expected[i] {
						goodItems = append(goodItems, it)
						goodIdx = append(goodIdx, i)
					}
				}
				alone, msg := evaluate(goodItems, wire)
				if msg != "" || len(alone) != len(goodItems) {
					rt.Fail(t, "C05/isolation", "good requests alone: %s (%d entries)", msg, len(alone))
					return
				}
				for j, i := range goodIdx {
					a, b := alone[j], resps[i]
					det := len(b)
					if items[i].req.Type() == 1 {
						det = 49 // evaluated element; the DLEQ proof is randomised
					}
					if len(a) != len(b) || !bytes.Equal(a[:det], b[:det]) {
						rt.Fail(t, "C05/isolation", "entry %d differs between the mixed batch and the batch without failing requests", i)
						return
					}
				}
				req := make([]byte, 0)
				for _, it := range items {
					req = append(req, it.req.Marshal()...)
				}
				s.Nontrivial(req)
				s.Class("mixed-batch")
			}
			s.Sample(func() any {
				return map[string]any{"batch": kindsOf(items), "expected_present": expected, "wire": wire, "batch_no": batchNo, "issuers": fmt.Sprintf("%d type-1, %d type-2", n1, n2)}
			})
		}
	})
}

func kindsOf(items []item) []string {
	out := make([]string, len(items))
	for i, it := range items {
		out[i] = it.kind
	}
	return out
}

// TestTruncatedIDCollisions: issuers of one type that share the truncated key id. The property stays
// decidable for PRESENCE (an entry is present exactly when some configured issuer of that type and
// truncated id evaluates the request); finalization is only asserted when the right-key issuer is
// the only one that evaluates it (with two successful evaluators no implementation can know which
// response the client can use).
func TestTruncatedIDCollisions(t *testing.T) {
	s := rt.S("truncated-id-collisions").SetRule("two type-2 issuers whose key ids end in the same byte (moduli 25% apart: the smaller one rejects about a quarter of the messages blinded for the larger) and two type-1 issuers with colliding ids (found by derivation), in drawn configuration order; batches of 1..6 requests for either key; model: present iff SOME matching issuer evaluates the request; finalization asserted when the right-key issuer is the only successful evaluator. non-trivial = batch containing a request that the first matching issuer rejects and a later one evaluates; distinct by batch bytes")
	pair := gen.RSACollidingPair()
	rt.Check(t, 60, 4000, func(t *rapid.T) {
		defer rt.Entropy(gen.Seed().Draw(t, "entropy"))()
		// type-1 colliding pair
		seed := gen.Seed().Draw(t, "keyseed")
		k1a := gen.OPRFKey(oprf.SuiteP384, append(append([]byte{}, seed...), 0))
		var k1b *oprf.PrivateKey
		for c := 1; ; c++ {
			k1b = gen.OPRFKey(oprf.SuiteP384, append(append([]byte{}, seed...), byte(c), byte(c>>8)))
			if last(gen.OPRFKeyID(k1b)) == last(gen.OPRFKeyID(k1a)) {
				break
			}
		}
		iss := []batched.Issuer{gen.Batch2{I: type2.NewBasicPublicIssuer(pair[0])}, gen.Batch2{I: type2.NewBasicPublicIssuer(pair[1])},
			gen.Batch1{I: type1.NewBasicPrivateIssuer(k1a)}, gen.Batch1{I: type1.NewBasicPrivateIssuer(k1b)}}
		order := rapid.Permutation([]int{0, 1, 2, 3}).Draw(t, "issuerOrder")
		var all []batched.Issuer
		for _, i := range order {
			all = append(all, iss[i])
		}
		bi := batched.NewBasicBatchedIssuer(all...)
		n := gen.UniformRange(t, 1, 6, "batchLen")
		type it struct {
			req   tokens.TokenRequestWithDetails
			sess  *gen.Session
			right batched.Issuer
		}
		var items []it
		for i := 0; i < n; i++ {
			switch gen.Uniform(t, 4, "which") {
			case 0, 1: // request for the LARGER-modulus key (the smaller issuer may reject it)
				sess, err := gen.NewSession(t, 2, gen.SessionOpts{RKeyIdx: 0})
				_ = sess
				_ = err
				st, err := type2.NewBasicPublicClient().CreateTokenRequest(sess.Challenge, sess.Nonces[0], iss[1].TokenKeyID(), &pair[1].PublicKey)
				if err != nil {
					t.Fatalf("harness: %v", err)
				}
				s2 := &gen.Session{Type: 2, Challenge: sess.Challenge, Nonces: sess.Nonces, KeyID: iss[1].TokenKeyID(), RKey: pair[1], State2: st}
				s2.Finalize = func(resp []byte) ([]tokens.Token, error) {
					tk, err := st.FinalizeToken(resp)
					return []tokens.Token{tk}, err
				}
				items = append(items, it{st.Request(), s2, iss[1]})
			case 2:
				sess, _ := gen.NewSession(t, 2, gen.SessionOpts{RKeyIdx: 0})
				st, err := type2.NewBasicPublicClient().CreateTokenRequest(sess.Challenge, sess.Nonces[0], iss[0].TokenKeyID(), &pair[0].PublicKey)
				if err != nil {
					t.Fatalf("harness: %v", err)
				}
				s2 := &gen.Session{Type: 2, Challenge: sess.Challenge, Nonces: sess.Nonces, KeyID: iss[0].TokenKeyID(), RKey: pair[0], State2: st}
				s2.Finalize = func(resp []byte) ([]tokens.Token, error) {
					tk, err := st.FinalizeToken(resp)
					return []tokens.Token{tk}, err
				}
				items = append(items, it{st.Request(), s2, iss[0]})
			case 3:
				key, right := k1a, iss[2]
				if rapid.Bool().Draw(t, "k1b") {
					key, right = k1b, iss[3]
				}
				sess, err := gen.NewSession(t, 1, gen.SessionOpts{OKey: key})
				if err != nil {
					t.Fatalf("harness: %v", err)
				}
				items = append(items, it{sess.State1.Request(), sess, right})
			}
		}
		s.Eval()
		reqs := make([]tokens.TokenRequestWithDetails, len(items))
		var reqBytes []byte
		for i, x := range items {
			reqs[i] = x.req
			reqBytes = append(reqBytes, x.req.Marshal()...)
		}
		br, err := batched.NewBasicClient().CreateTokenRequest(reqs)
		if err != nil {
			t.Fatalf("harness: %v", err)
		}
		respEnc, err := bi.EvaluateBatch(br)
		if err != nil {
			rt.Fail(t, "C05/collisions/evaluate", "EvaluateBatch: %v", err)
			return
		}
		resps, err := batched.UnmarshalBatchedTokenResponses(respEnc)
		if err != nil || len(resps) != len(items) {
			rt.Fail(t, "C05/collisions/decode", "response list: %v, %d entries for %d requests", err, len(resps), len(items))
			return
		}
		interesting := false
		for i, x := range items {
			var okIssuers []batched.Issuer
			firstRejected := false
			for k, is := range all {
				if is.Type() != x.req.Type() || last(is.TokenKeyID()) != x.req.TruncatedTokenKeyID() {
					continue
				}
				if _, err := is.Evaluate(x.req); err == nil {
					okIssuers = append(okIssuers, is)
				} else if len(okIssuers) == 0 {
					firstRejected = true
					_ = k
				}
			}
			present := len(resps[i]) > 0
			if present != (len(okIssuers) > 0) {
				rt.Fail(t, "C05/collisions/presence", "entry %d present=%v although %d configured issuers of its type and truncated key id evaluate the request (first matching issuer rejected it: %v)", i, present, len(okIssuers), firstRejected)
				return
			}
			if firstRejected && len(okIssuers) > 0 {
				interesting = true
				s.Class("first-matching-issuer-rejects")
			}
			if len(okIssuers) == 1 && bytes.Equal(okIssuers[0].TokenKeyID(), x.right.TokenKeyID()) {
				toks, err := x.sess.Finalize(resps[i])
				if err != nil {
					rt.Fail(t, "C05/collisions/finalize", "entry %d was evaluated only by its own issuer but does not finalize: %v", i, err)
					return
				}
				if err := x.sess.CheckTokens(toks); err != nil {
					rt.Fail(t, "C05/collisions/token", "entry %d: %v", i, err)
					return
				}
				s.Class("finalized")
			} else if len(okIssuers) > 1 {
				s.Class("ambiguous(two-successful-evaluators,finalization-not-asserted)")
			}
		}
		if interesting {
			s.Nontrivial(reqBytes)
		}
		s.Sample(func() any { return map[string]any{"batch_len": n, "issuer_order": order} })
	})
}

// TestLargeBatches: batch sizes whose request and response lists cross the 2-byte -> 4-byte varint boundary (16383 bytes).
func TestLargeBatches(t *testing.T) {
	s := rt.S("large-batches").SetRule("batches with 63, 64, 65 successful type-2 requests (259-byte entries: 16317 / 16576 / 16835 bytes), 110, 111, 112 successful type-1 requests (148-byte entries) and mixed batches of that size, and batches whose response list exceeds 65535 bytes (266 type-2, 462 type-1, 240+125), with a few failing requests inside, and compositions with EXACT list lengths (request list 16384 bytes; response lists 16383, 16384, 65535, 65536 bytes), over the wire; same oracle (one entry per request in order, presence per model, present entries finalize). non-trivial = every batch; distinct by batch bytes")
	// every 37th request fails, so e.g. 66 type-2 requests give 64 present entries (16576 bytes + 2 absent markers)
	// nAbs > 0 or exact: no request fails except nAbs type-1 requests with an unknown key id appended at the end (52 bytes
	// in the request list, 1 byte in the response list), so that the list lengths are EXACT
	type size struct {
		n1, n2 int
		exact  bool
		nAbs   int
	}
	sizes := []size{{0, 65, false, 0}, {0, 66, false, 0}, {0, 67, false, 0}, {113, 0, false, 0}, {114, 0, false, 0}, {115, 0, false, 0}, {60, 50, false, 0},
		// response lists beyond 65535 bytes (16-bit offsets and lengths wrap here): >= 257 present type-2 / >= 443 present type-1 entries
		{0, 266, false, 0}, {462, 0, false, 0}, {240, 125, false, 0},
		// exact boundaries: request list of 16384 bytes (76*52 + 48*259); response lists of 16383, 16384 and 65535, 65536 bytes
		{76, 48, true, 0}, {0, 63, true, 66}, {0, 63, true, 67}, {0, 253, true, 8}, {0, 253, true, 9}}
	if rt.Thorough() {
		sizes = append(sizes, []size{{0, 127, false, 0}, {0, 128, false, 0}, {221, 0, false, 0}, {222, 0, false, 0}, {100, 100, false, 0}, {1081, 36, true, 0}}...)
	}
	rt.Check(t, 1, 6, func(t *rapid.T) {
		defer rt.Entropy(gen.Seed().Draw(t, "entropy"))()
		k1 := gen.OPRFKey(oprf.SuiteP384, gen.Seed().Draw(t, "keyseed"))
		rsaIdx := gen.RSAKey().Draw(t, "rsakey")
		i1, i2 := type1.NewBasicPrivateIssuer(k1), type2.NewBasicPublicIssuer(gen.RSAPool()[rsaIdx])
		bi := batched.NewBasicBatchedIssuer(gen.Batch1{I: i1}, gen.Batch2{I: i2})
		for si, sz := range sizes {
			if !rt.Mine(si) {
				continue
			}
			type it struct {
				req  tokens.TokenRequestWithDetails
				sess *gen.Session
			}
			var items []it
			cl := gen.NewClients()
			for i := 0; i < sz.n1+sz.n2+sz.nAbs; i++ {
				typ := uint16(1)
				if i >= sz.n1 && i < sz.n1+sz.n2 {
					typ = 2
				}
				sess, err := gen.NewSession(t, typ, gen.SessionOpts{OKey: k1, RKeyIdx: rsaIdx, Clients: cl})
				if err != nil {
					t.Fatalf("harness: %v", err)
				}
				var r tokens.TokenRequestWithDetails
				if typ == 1 {
					r = sess.State1.Request()
				} else {
					r = sess.State2.Request()
				}
				if i >= sz.n1+sz.n2 {
					// one of the nAbs requests nobody serves
					r = &type1.BasicPrivateTokenRequest{TokenKeyID: sess.State1.Request().TokenKeyID ^ 0xFF, BlindedReq: sess.State1.Request().BlindedReq}
					sess = nil
				} else if !sz.exact && i%37 == 5 { // a few failing requests inside the large batch
					if typ == 1 {
						r = &type1.BasicPrivateTokenRequest{TokenKeyID: sess.State1.Request().TokenKeyID, BlindedReq: make([]byte, 49)}
					} else {
						r = &type2.BasicPublicTokenRequest{TokenKeyID: sess.State2.Request().TokenKeyID ^ 0xFF, BlindedReq: sess.State2.Request().BlindedReq}
					}
					sess = nil
				}
				items = append(items, it{r, sess})
			}
			reqs := make([]tokens.TokenRequestWithDetails, len(items))
			for i := range items {
				reqs[i] = items[i].req
			}
			s.Eval()
			s.Class(fmt.Sprintf("%d type-1 + %d type-2 + %d unserved", sz.n1, sz.n2, sz.nAbs))
			br, err := batched.NewBasicClient().CreateTokenRequest(reqs)
			if err != nil {
				rt.Fail(t, "C05/large/create", "CreateTokenRequest for %d requests: %v", len(reqs), err)
				return
			}
			enc := append([]byte{}, br.Marshal()...)
			s.Nontrivial(enc)
			var inner [][]byte
			for _, r := range reqs {
				inner = append(inner, r.Marshal())
			}
			if want := ref.EncodeBatchRequest(inner); !bytes.Equal(enc, want) {
				rt.Fail(t, "C05/large/request-encoding", "batch request of %d requests: Marshal() differs from the reference encoding (list of %d bytes): starts %x, reference starts %x", len(reqs), len(want), enc[:8], want[:8])
				return
			}
			dec := new(batched.BatchedTokenRequest)
			if !dec.Unmarshal(enc) {
				rt.Fail(t, "C05/large/request-decode", "batch request of %d requests (%d bytes) does not decode", len(reqs), len(enc))
				return
			}
			respEnc, err := bi.EvaluateBatch(dec)
			if err != nil {
				rt.Fail(t, "C05/large/evaluate", "EvaluateBatch on %d requests failed: %v", len(reqs), err)
				return
			}
			if l, n, ok := ref.VarintDecode(respEnc); !ok || int(l) != len(respEnc)-n || n != len(ref.VarintEncode(l)) {
				rt.Fail(t, "C05/large/response-encoding", "response list of a %d-request batch: %d bytes, length prefix %x (value %d in %d bytes) is not the shortest varint of the list length", len(items), len(respEnc), respEnc[:n], l, n)
				return
			}
			resps, err := batched.UnmarshalBatchedTokenResponses(respEnc)
			if err != nil || len(resps) != len(items) {
				rt.Fail(t, "C05/large/response-decode", "response list of a %d-request batch (%d bytes): %v, %d entries", len(items), len(respEnc), err, len(resps))
				return
			}
			for i, x := range items {
				if (len(resps[i]) > 0) != (x.sess != nil) {
					rt.Fail(t, "C05/large/presence", "entry %d of %d present=%v, expected %v", i, len(items), len(resps[i]) > 0, x.sess != nil)
					return
				}
				if x.sess == nil {
					continue
				}
				toks, err := x.sess.Finalize(resps[i])
				if err != nil || x.sess.CheckTokens(toks) != nil {
					rt.Fail(t, "C05/large/finalize", "entry %d of a %d-request batch does not finalize to a valid token: %v", i, len(items), err)
					return
				}
			}
			s.Sample(func() any {
				return map[string]any{"type1": sz.n1, "type2": sz.n2, "request_bytes": len(enc), "response_bytes": len(respEnc)}
			})
		}
	})
}

func typesOf(l []batched.Issuer) []uint16 {
	var out []uint16
	for _, i := range l {
		out = append(out, i.Type())
	}
	return out
}
