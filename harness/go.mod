module verifharness

go 1.23.0

require (
	github.com/cisco/go-hpke v0.0.0-20210524174249-dd22b38cf960
	github.com/cloudflare/circl v1.3.7
	github.com/cloudflare/pat-go v0.0.0
	golang.org/x/crypto v0.35.0
	pgregory.net/rapid v1.3.0
)

replace github.com/cloudflare/pat-go => /repo
