// C02 — a client only ever outputs tokens that verify and belong to its own request.
package c02

import (
	"bytes"
	"crypto/rand"
	"crypto/sha256"
	"fmt"
	"math/big"

	hpke "github.com/cisco/go-hpke"
	"github.com/cloudflare/circl/blindsign/blindrsa"
	"sync"
	"testing"

	"github.com/cloudflare/circl/oprf"
	"github.com/cloudflare/pat-go/tokens"
	"github.com/cloudflare/pat-go/tokens/type1"
	"github.com/cloudflare/pat-go/tokens/type2"
	"github.com/cloudflare/pat-go/tokens/type3"
	"github.com/cloudflare/pat-go/tokens/type5"
	"pgregory.net/rapid"

	"verifharness/internal/gen"
	"verifharness/internal/ref"
	"verifharness/internal/rt"
)

func TestMain(m *testing.M) { rt.Main(m) }

const rule = "honest run, then an attacker transformation of the response handed to the client's Finalize: MUST-REJECT classes (single-bit flip, response under another issuer key, response to another outstanding request, type-5 element drop/duplicate/swap with valid framing) must return an error; every other class (truncation, extension, zeros, random, re-framed varint) may only succeed with tokens that verify under the pinned key by independent means and carry the request's nonce/challenge digest/key id; a panic is reported (the property demands an error). non-trivial = transformed response differs from the honest one; distinct by (run, response bytes)"

// finalize calls the client under a panic guard and applies the oracle.
// mustReject: success itself is the violation.
func finalize(t *rapid.T, s *rt.Sub, sess *gen.Session, resp []byte, class string, mustReject bool, honest []byte) {
	s.Eval()
	s.Class(class)
	var toks []tokens.Token
	var err error
	o := rt.GuardLite(func() { toks, err = sess.Finalize(append([]byte{}, resp...)) })
	if !bytes.Equal(resp, honest) {
		s.Nontrivial(sess.RequestBytes, resp)
	} else {
		// the transformation did not change anything (e.g. two equal elements of a batch swapped - equal nonces and equal
		// blinds can be drawn): this IS the honest response
		mustReject = false
		s.Class("transformation-without-effect")
	}
	if o.Panic != nil {
		// "in every other case it returns an error": a panic is not an error return
		rt.Fail(t, fmt.Sprintf("C02/%s/%s/panic", gen.TypeName(sess.Type), class), "finalization panicked instead of returning an error (%v) on response %s", o.Panic, rt.Hex(resp))
		return
	}
	if err != nil {
		s.Class("rejected")
		return
	}
	s.Class("accepted")
	tn := gen.TypeName(sess.Type)
	if cerr := sess.CheckTokens(toks); cerr != nil {
		rt.Fail(t, fmt.Sprintf("C02/%s/%s/invalid-token", tn, class), "client accepted a response (%s) and returned a token that is not valid for its request: %v; response %s", class, cerr, rt.Hex(resp))
		return
	}
	if mustReject {
		rt.Fail(t, fmt.Sprintf("C02/%s/%s/accepted", tn, class), "client accepted a response of class %s, which the property requires to be rejected; response %s honest %s", class, rt.Hex(resp), rt.Hex(honest))
	}
}

func flipBit(b []byte, bit int) []byte {
	out := append([]byte{}, b...)
	out[bit/8] ^= 1 << (7 - bit%8)
	return out
}

// bitClass names the region of a flipped bit, to make known findings specific.
func bitClass(typ uint16, resp []byte, bit int) string {
	if typ != 5 {
		return "bitflip"
	}
	l, n, _ := ref.VarintDecode(resp)
	proofStart := n + int(l)
	byteIdx := bit / 8
	if byteIdx >= proofStart {
		off := byteIdx - proofStart // 0..63: c (LE) then s (LE)
		if off%32 == 31 && bit%8 < 3 {
			return "bitflip-proof-scalar-top3bits" // bits 253..255 of c or s
		}
		return "bitflip-proof"
	}
	if byteIdx < n {
		return "bitflip-length"
	}
	return "bitflip-element"
}

type pair struct {
	clients        *gen.Clients
	a, b           *gen.Session // two outstanding requests under the same issuer key
	respA, respB   []byte
	foreignKeyResp []byte // response to a's request bytes computed under another issuer key (nil if not available)
}

// newPair builds two sessions under one key, their honest responses, and a foreign-key response for a.
func newPair(t *rapid.T, typ uint16) (*pair, error) {
	p := &pair{}
	var err error
	cl := gen.NewClients() // both outstanding requests come from ONE client object of the type
	p.clients = cl
	switch typ {
	case 1, 5:
		suite := oprf.SuiteP384
		if typ == 5 {
			suite = oprf.SuiteRistretto255
		}
		key := gen.OPRFKey(suite, gen.Seed().Draw(t, "keyseed"))
		other := gen.OPRFKey(suite, append(gen.Seed().Draw(t, "otherkeyseed"), 1))
		// type 5, in a third of the cases: both requests are made with fixed blinds and share challenge, FIRST nonce and FIRST
		// blind - their first blinded elements are equal, everything after differs
		shared := typ == 5 && gen.Uniform(t, 3, "sharedFirstElement") == 0
		oa := gen.SessionOpts{OKey: key, MaxBatch: 5, Clients: cl, ForceWithBlind: shared}
		if p.a, err = gen.NewSession(t, typ, oa); err != nil {
			return nil, err
		}
		ob := gen.SessionOpts{OKey: key, MaxBatch: 5, Clients: cl}
		if shared && len(p.a.Nonces) > 1 {
			ob.ForceWithBlind, ob.Nonce0, ob.Blind0, ob.Challenge = true, p.a.Nonces[0], p.a.Blinds[0], p.a.Challenge
		}
		// same batch size for b (so that a cross-wired response is not rejected for its count alone)
		for {
			if p.b, err = gen.NewSession(t, typ, ob); err != nil {
				return nil, err
			}
			if len(p.b.Nonces) == len(p.a.Nonces) {
				break
			}
		}
		if typ == 1 {
			r := new(type1.BasicPrivateTokenRequest)
			if r.Unmarshal(p.a.RequestBytes) {
				p.foreignKeyResp, _ = type1.NewBasicPrivateIssuer(other).Evaluate(r)
			}
		} else {
			r := new(type5.BatchedPrivateTokenRequest)
			if r.Unmarshal(p.a.RequestBytes) {
				p.foreignKeyResp, _ = type5.NewBatchedPrivateIssuer(other).Evaluate(r)
			}
		}
	case 2:
		idx := gen.RSAKey().Draw(t, "rsakey")
		if p.a, err = gen.NewSession(t, 2, gen.SessionOpts{RKeyIdx: idx, Clients: cl}); err != nil {
			return nil, err
		}
		if p.b, err = gen.NewSession(t, 2, gen.SessionOpts{RKeyIdx: idx, Clients: cl}); err != nil {
			return nil, err
		}
		r := new(type2.BasicPublicTokenRequest)
		if r.Unmarshal(p.a.RequestBytes) {
			p.foreignKeyResp, _ = type2.NewBasicPublicIssuer(gen.RSAPool()[(idx+1)%len(gen.RSAPool())]).Evaluate(r)
		}
	case 3:
		idx := gen.RSAKey().Draw(t, "rsakey")
		// two issuers with the SAME name key (same entropy at construction) but different token keys:
		// the client pins key A, the malicious issuer signs with key B
		seed := gen.Seed().Draw(t, "issuerEntropy")
		saved := rand.Reader
		rand.Reader = rt.NewDRBG(seed)
		issA := type3.NewRateLimitedIssuer(gen.RSAPool()[idx])
		rand.Reader = rt.NewDRBG(seed)
		issB := type3.NewRateLimitedIssuer(gen.RSAPool()[(idx+1)%len(gen.RSAPool())])
		rand.Reader = saved
		if issA == nil || issB == nil {
			return nil, fmt.Errorf("NewRateLimitedIssuer returned nil")
		}
		origin := gen.OriginName().Draw(t, "origin")
		var secret3 []byte
		if rapid.Bool().Draw(t, "sameType3Client") {
			secret3 = gen.P384KeyBytes().Draw(t, "clientSecret")
		}
		if err := issA.AddOrigin(origin); err != nil {
			return nil, err
		}
		if err := issB.AddOrigin(origin); err != nil {
			return nil, err
		}
		if !bytes.Equal(issA.NameKey().Marshal(), issB.NameKey().Marshal()) {
			return nil, fmt.Errorf("harness: could not build two issuers with one name key")
		}
		if p.a, err = gen.NewSession(t, 3, gen.SessionOpts{Issuer3: issA, RKeyIdx: idx, Origin: &origin, Clients: cl, ClientSecret: secret3}); err != nil {
			return nil, err
		}
		if p.b, err = gen.NewSession(t, 3, gen.SessionOpts{Issuer3: issA, RKeyIdx: idx, Origin: &origin, Clients: cl, ClientSecret: secret3}); err != nil {
			return nil, err
		}
		p.foreignKeyResp, _, _ = issB.Evaluate(p.a.RequestBytes)
	}
	if p.respA, err = p.a.IssueWire(p.a.RequestBytes); err != nil {
		return nil, fmt.Errorf("issuer: %v", err)
	}
	if p.respB, err = p.b.IssueWire(p.b.RequestBytes); err != nil {
		return nil, fmt.Errorf("issuer: %v", err)
	}
	return p, nil
}

// type-5 structural attacks: elements dropped / duplicated / swapped, frame recomputed, proof kept.
func type5Structural(t *rapid.T, resp []byte) ([]byte, string) {
	l, n, _ := ref.VarintDecode(resp)
	body := resp[n : n+int(l)]
	proof := resp[n+int(l):]
	cnt := len(body) / 32
	els := make([][]byte, cnt)
	for i := range els {
		els[i] = body[32*i : 32*i+32]
	}
	class := ""
	switch gen.Uniform(t, 4, "structural") {
	case 0:
		i := gen.Uniform(t, cnt, "drop")
		els = append(append([][]byte{}, els[:i]...), els[i+1:]...)
		class = "t5-drop"
	case 1:
		i := gen.Uniform(t, cnt, "dup")
		els = append(append(append([][]byte{}, els[:i+1]...), els[i]), els[i+1:]...)
		class = "t5-duplicate-insert"
	case 2:
		if cnt < 2 {
			els = append(els, els[0])
			class = "t5-duplicate-insert"
			break
		}
		i := gen.Uniform(t, cnt, "src")
		j := (i + gen.UniformRange(t, 1, cnt-1, "dstoff")) % cnt
		els = append([][]byte{}, els...)
		els[j] = els[i]
		class = "t5-duplicate-overwrite"
	case 3:
		if cnt < 2 {
			els = nil
			class = "t5-drop"
			break
		}
		i := gen.Uniform(t, cnt, "i")
		j := (i + gen.UniformRange(t, 1, cnt-1, "joff")) % cnt
		els = append([][]byte{}, els...)
		els[i], els[j] = els[j], els[i]
		class = "t5-swap"
	}
	nb := bytes.Join(els, nil)
	out := append(ref.VarintEncode(uint64(len(nb))), nb...)
	return append(out, proof...), class
}

func runType(t *testing.T, typ uint16, quickRuns, thoroughRuns, perRun int) {
	s := rt.S(gen.TypeName(typ)).SetRule(rule)
	rt.Check(t, quickRuns, thoroughRuns, func(t *rapid.T) {
		defer rt.Entropy(gen.Seed().Draw(t, "entropy"))()
		p, err := newPair(t, typ)
		if err != nil {
			t.Fatalf("harness health: honest set-up failed (C01's business): %v", err)
		}
		honest := p.respA
		// in a third of the cases the attack comes FIRST: a response under a foreign key is refused, the same client then
		// creates another request, and only then the first request is finalized with its genuine response - which must still
		// give tokens valid for THAT request (a refused response must not have consumed or released anything of the state)
		if p.foreignKeyResp != nil && gen.Uniform(t, 3, "attackFirst") == 0 {
			finalize(t, s, p.a, p.foreignKeyResp, "foreign-issuer-key-before-honest", true, honest)
			o := gen.SessionOpts{OKey: p.a.OKey, RKey: p.a.RKey, RKeyIdx: 0, MaxBatch: 5, Clients: p.clients}
			if typ == 3 {
				o.Issuer3, o.Origin, o.ClientSecret = p.a.Issuer3, &p.a.Origin, p.a.ClientSecret
			}
			if _, err := gen.NewSession(t, typ, o); err != nil {
				t.Fatalf("harness health: creating a further request failed: %v", err)
			}
			s.Class("attack-before-honest")
		}
		// the honest response is accepted (guards against a vacuous 'rejects everything') and - with a second request
		// of the same client outstanding - yields a token that is valid for THIS request
		toks, err := p.a.Finalize(append([]byte{}, honest...))
		if err != nil {
			t.Fatalf("harness health: honest response not accepted (C01's business): %v", err)
		}
		if cerr := p.a.CheckTokens(toks); cerr != nil {
			rt.Fail(t, fmt.Sprintf("C02/%s/honest/invalid-token", gen.TypeName(typ)), "with two requests of one client outstanding, finalizing the first with its own honest response returned no error but a token that is not valid for it: %v", cerr)
			return
		}
		if toksB, err := p.b.Finalize(append([]byte{}, p.respB...)); err != nil || p.b.CheckTokens(toksB) != nil {
			rt.Fail(t, fmt.Sprintf("C02/%s/honest/invalid-token", gen.TypeName(typ)), "second outstanding request of the client does not finalize to a valid token: %v %v", err, p.b.CheckTokens(toksB))
			return
		}
		s.Class("honest-accepted")
		// MUST-REJECT: foreign key, cross-wired
		if p.foreignKeyResp != nil {
			finalize(t, s, p.a, p.foreignKeyResp, "foreign-issuer-key", true, honest)
		}
		// (two drawn requests can be IDENTICAL - special nonces and blinds repeat - and then each one's response is a genuine
		// response to the other)
		if !bytes.Equal(p.a.RequestBytes, p.b.RequestBytes) {
			finalize(t, s, p.a, p.respB, "response-to-other-request", true, honest)
			finalize(t, s, p.b, p.respA, "response-to-other-request", true, p.respB)
		} else {
			s.Exclude("identical-requests-drawn")
		}
		for i := 0; i < perRun; i++ {
			switch k := gen.Uniform(t, 10, "class"); {
			case k <= 3:
				bit := gen.Uniform(t, len(honest)*8, "bit")
				finalize(t, s, p.a, flipBit(honest, bit), bitClass(typ, honest, bit), true, honest)
			case k == 4 && typ == 5:
				r, class := type5Structural(t, honest)
				finalize(t, s, p.a, r, class, true, honest)
			case k == 5:
				cut := gen.Uniform(t, len(honest), "cut")
				finalize(t, s, p.a, honest[:cut], "truncate", false, honest)
			case k == 6:
				ext := gen.Bytes(t, 1, 40, "ext")
				finalize(t, s, p.a, append(append([]byte{}, honest...), ext...), "extend", false, honest)
			case k == 7:
				switch gen.Uniform(t, 3, "degenerate") {
				case 0:
					finalize(t, s, p.a, make([]byte, len(honest)), "all-zero", false, honest)
				case 1:
					finalize(t, s, p.a, nil, "empty", false, honest)
				case 2:
					finalize(t, s, p.a, rapid.SliceOfN(rapid.Byte(), len(honest), len(honest)).Draw(t, "rnd"), "random-same-length", false, honest)
				}
			default:
				r, class := gen.Mutate(t, honest, [][]byte{p.respB}, []int{0, 1, 2, 3})
				if class == "bitflip" || class == "identity" {
					continue
				}
				finalize(t, s, p.a, r, "mutate:"+class, false, honest)
			}
		}
		s.Sample(func() any {
			return map[string]any{"type": typ, "request": rt.Hex(p.a.RequestBytes), "honest_response": rt.Hex(honest), "foreign_key_response": rt.Hex(p.foreignKeyResp)}
		})
	})
}

func TestType1(t *testing.T) { runType(t, 1, 25, 8000, 20) }
func TestType2(t *testing.T) { runType(t, 2, 40, 16000, 25) }
func TestType3(t *testing.T) { runType(t, 3, 40, 12000, 25) }
func TestType5(t *testing.T) { runType(t, 5, 40, 16000, 25) }

// TestExhaustiveBitFlips: every bit position of the honest response, for a few runs per type.
func TestExhaustiveBitFlips(t *testing.T) {
	s := rt.S("exhaustive-bitflips").SetRule("every single-bit flip of the honest response of a drawn run, per type (quick: 1 run for types 2,3,5 and every 4th bit for type 1; thorough: 8 runs per type, all bits); each must be rejected; distinct by construction")
	for _, typ := range []uint16{1, 2, 3, 5} {
		typ := typ
		t.Run(gen.TypeName(typ), func(t *testing.T) {
			rt.Check(t, 1, 32, func(t *rapid.T) {
				defer rt.Entropy(gen.Seed().Draw(t, "entropy"))()
				p, err := newPair(t, typ)
				if err != nil {
					t.Fatalf("harness health: %v", err)
				}
				honest := p.respA
				step := 1
				if typ == 1 && !rt.Thorough() {
					step = 4
				}
				for bit := 0; bit < len(honest)*8; bit += step {
					finalize(t, s, p.a, flipBit(honest, bit), bitClass(typ, honest, bit), true, honest)
				}
				s.MarkExhaustive(fmt.Sprintf("all %d bit positions of a type-%d response (step %d)", len(honest)*8, typ, step))
			})
		})
	}
}

// TestOtherKeySizes: an issuer key of a size the token format cannot carry (the client is handed whatever key the
// issuer publishes). Finalization may fail, but it may not succeed with a token that does not verify.
func TestOtherKeySizes(t *testing.T) {
	s := rt.S("other-key-sizes").SetRule("types 2 and 3 with an issuer RSA key of 1024, 3072 or 4096 bits (the token format carries a 256-byte authenticator): honest request, honest response, and a few transformed responses; oracle: finalization returns an error or a token that verifies under the pinned key and is bound to the request. non-trivial = every case; distinct by (key size, request)")
	keys := gen.RSAOddKeys()
	rt.Check(t, 12, 1600, func(t *rapid.T) {
		defer rt.Entropy(gen.Seed().Draw(t, "entropy"))()
		key := gen.Pick(t, keys, "key")
		chal, nonce := gen.Challenge().Draw(t, "challenge"), gen.Bytes32().Draw(t, "nonce")
		typ := gen.Pick(t, []uint16{2, 3}, "type")
		s.Eval()
		s.Class(fmt.Sprintf("type%d/%d-bit", typ, key.N.BitLen()))
		sess := &gen.Session{Type: typ, Challenge: chal, Nonces: [][]byte{nonce}, RKey: key}
		var resp []byte
		switch typ {
		case 2:
			iss := type2.NewBasicPublicIssuer(key)
			sess.KeyID = iss.TokenKeyID()
			st, err := type2.NewBasicPublicClient().CreateTokenRequest(chal, nonce, sess.KeyID, iss.TokenKey())
			if err != nil {
				s.Class("create-refused")
				return
			}
			sess.RequestBytes = st.Request().Marshal()
			sess.Finalize = func(r []byte) ([]tokens.Token, error) {
				tk, err := st.FinalizeToken(r)
				return []tokens.Token{tk}, err
			}
			var err2 error
			if o := rt.GuardLite(func() { resp, err2 = iss.Evaluate(st.Request()) }); o.Panic != nil || err2 != nil {
				s.Class("issuer-refused")
				return
			}
		case 3:
			iss := type3.NewRateLimitedIssuer(key)
			_ = iss.AddOrigin("o.example")
			sess.KeyID = iss.TokenKeyID()
			st, err := type3.NewRateLimitedClientFromSecret([]byte{1, 2, 3}).CreateTokenRequest(chal, nonce, []byte{4, 5}, sess.KeyID, iss.TokenKey(), "o.example", iss.NameKey())
			if err != nil {
				s.Class("create-refused")
				return
			}
			sess.RequestBytes = st.Request().Marshal()
			sess.Finalize = func(r []byte) ([]tokens.Token, error) {
				tk, err := st.FinalizeToken(r)
				return []tokens.Token{tk}, err
			}
			var err2 error
			if o := rt.GuardLite(func() { resp, _, err2 = iss.Evaluate(sess.RequestBytes) }); o.Panic != nil || err2 != nil {
				s.Class("issuer-refused")
				return
			}
		}
		finalize(t, s, sess, resp, "honest-response-odd-key-size", false, nil)
		for i := 0; i < 4; i++ {
			r, class := gen.Mutate(t, resp, nil, []int{0, 1})
			finalize(t, s, sess, r, "odd-key-size-mutate:"+class, false, resp)
		}
		s.Sample(func() any { return map[string]any{"type": typ, "key_bits": key.N.BitLen(), "response_len": len(resp)} })
	})
}

// TestConcurrentFinalization: independent clients (own states, own honest responses) finalize at the same time. The
// property is per call; calls that share nothing but the library's package-level state must each still satisfy it.
func TestConcurrentFinalization(t *testing.T) {
	s := rt.S("concurrent-finalization").SetRule("per case 8 goroutines, each with its own 6 request states of a drawn type and their honest responses (prepared sequentially), finalize them at the same time; oracle per call: an error (would be C01's business, also reported) or a token that verifies under the pinned key and is bound to its own request. non-trivial = every case; distinct by the first request's bytes")
	rt.Check(t, 6, 800, func(t *rapid.T) {
		const workers, rounds = 8, 6
		type job struct {
			sess *gen.Session
			resp []byte
		}
		jobs := make([][]job, workers)
		func() {
			defer rt.Entropy(gen.Seed().Draw(t, "entropy"))()
			typ := gen.Pick(t, []uint16{1, 1, 5, 2, 3}, "type")
			s.Class(gen.TypeName(typ))
			for w := 0; w < workers; w++ {
				for r := 0; r < rounds; r++ {
					sess, err := gen.NewSession(t, typ, gen.SessionOpts{RKeyIdx: -1, MaxBatch: 3})
					if err != nil {
						t.Fatalf("harness: %v", err)
					}
					resp, err := sess.IssueWire(sess.RequestBytes)
					if err != nil {
						t.Fatalf("harness: %v", err)
					}
					jobs[w] = append(jobs[w], job{sess, resp})
				}
			}
		}()
		s.Eval()
		s.Nontrivial(jobs[0][0].sess.RequestBytes)
		errs := make(chan error, workers*rounds)
		start := make(chan struct{})
		var wg sync.WaitGroup
		for w := 0; w < workers; w++ {
			wg.Add(1)
			go func(w int) {
				defer wg.Done()
				<-start
				for _, j := range jobs[w] {
					toks, err := j.sess.Finalize(j.resp)
					if err != nil {
						errs <- fmt.Errorf("honest response rejected while other clients finalize concurrently: %v", err)
						continue
					}
					if cerr := j.sess.CheckTokens(toks); cerr != nil {
						errs <- fmt.Errorf("finalization returned no error but %v", cerr)
					}
				}
			}(w)
		}
		close(start)
		wg.Wait()
		close(errs)
		for err := range errs {
			rt.Fail(t, "C02/concurrent-finalization", "%v", err)
			return
		}
		s.Sample(func() any { return map[string]any{"workers": workers, "rounds": rounds, "type": jobs[0][0].sess.Type} })
	})
}

// TestCraftedType3Responses: a malicious ISSUER knows the HPKE secret, so it can put anything behind the response's
// AEAD; byte-level corruption of an honest response never gets that far. The harness plays that issuer: the client's
// request is created for a name key derived from a seed the harness knows, the harness runs the receiver side of
// HPKE itself (go-hpke) and seals arbitrary "blind signatures".
func TestCraftedType3Responses(t *testing.T) {
	s := rt.S("crafted-type3-responses").SetRule("type-3 request created for a name key whose seed the harness knows; the harness derives the response key like the issuer (HPKE export, HKDF) and seals: the honest blind signature (health: accepted, valid token), a blind signature under another RSA key, by the right key over another message, of length 0/1/255/257/512, all-zero, all-0xff, N-1, random; oracle: finalization errors or returns a token that verifies under the pinned key and is bound to the request. non-trivial = every crafted response; distinct by (request, plaintext)")
	su, err := hpke.AssembleCipherSuite(hpke.DHKEM_X25519, hpke.KDF_HKDF_SHA256, hpke.AEAD_AESGCM128)
	if err != nil {
		t.Fatal(err)
	}
	rt.Check(t, 25, 3000, func(t *rapid.T) {
		defer rt.Entropy(gen.Seed().Draw(t, "entropy"))()
		seed := gen.Seed().Draw(t, "nameKeySeed")
		nk, err := type3.CreatePrivateEncapKeyFromSeed(seed)
		if err != nil {
			t.Fatalf("harness: %v", err)
		}
		skR, _, err := su.KEM.DeriveKeyPair(seed)
		if err != nil {
			t.Fatalf("harness: %v", err)
		}
		idx := gen.RSAKey().Draw(t, "rsakey")
		key := gen.RSAPool()[idx]
		other := gen.RSAPool()[(idx+1)%len(gen.RSAPool())]
		iss2 := type2.NewBasicPublicIssuer(key) // same SPKI-derived key id as a type-3 issuer over this key
		keyID := iss2.TokenKeyID()
		chal, nonce := gen.Challenge().Draw(t, "challenge"), gen.Bytes32().Draw(t, "nonce")
		st, err := type3.NewRateLimitedClientFromSecret(gen.P384KeyBytes().Draw(t, "secret")).CreateTokenRequest(chal, nonce, gen.P384KeyBytes().Draw(t, "blind"), keyID, &key.PublicKey, "o.example", nk.Public())
		if err != nil {
			t.Fatalf("harness: %v", err)
		}
		reqBytes := st.Request().Marshal()
		sess := &gen.Session{Type: 3, Challenge: chal, Nonces: [][]byte{nonce}, KeyID: keyID, RKey: key, RequestBytes: reqBytes}
		sess.Finalize = func(r []byte) ([]tokens.Token, error) {
			tk, err := st.FinalizeToken(r)
			return []tokens.Token{tk}, err
		}
		// receiver side of HPKE, as the issuer does it
		ctLen := int(reqBytes[83])<<8 | int(reqBytes[84])
		encCT := reqBytes[85 : 85+ctLen]
		enc, ct := encCT[:32], encCT[32:]
		ctx, err := hpke.SetupBaseR(su, skR, enc, []byte("TokenRequest"))
		if err != nil {
			t.Fatalf("harness: HPKE receiver: %v", err)
		}
		nkEnc := nk.Public().Marshal()
		nkID := sha256.Sum256(nkEnc)
		aad := append([]byte{nkEnc[0], 0x00, 0x20, 0x00, 0x01, 0x00, 0x01, 0x00, 0x03}, reqBytes[2:51]...)
		aad = append(aad, nkID[:]...)
		inner, err := ctx.Open(aad, ct)
		if err != nil {
			t.Fatalf("harness: cannot open the client's request like the issuer would: %v", err)
		}
		secret := ctx.Export([]byte("TokenResponse"), 16)
		blindedMsg := inner[1:257]
		seal := func(plaintext []byte) []byte {
			rn := rapid.SliceOfN(rapid.Byte(), 16, 16).Draw(t, "responseNonce")
			prk := su.KDF.Extract(append(append([]byte{}, enc...), rn...), secret)
			k := su.KDF.Expand(prk, []byte("key"), 16)
			n := su.KDF.Expand(prk, []byte("nonce"), 12)
			aead, err := su.AEAD.New(k)
			if err != nil {
				t.Fatalf("harness: %v", err)
			}
			return append(rn, aead.Seal(nil, n, plaintext, nil)...)
		}
		honestSig, err := blindrsa.NewSigner(key).BlindSign(blindedMsg)
		if err != nil {
			t.Fatalf("harness: %v", err)
		}
		// health: the harness-sealed honest blind signature is accepted and gives a valid token
		honestResp := seal(honestSig)
		toks, err := sess.Finalize(append([]byte{}, honestResp...))
		if err != nil || sess.CheckTokens(toks) != nil {
			t.Fatalf("harness health: response sealed by the harness with the honest blind signature is not accepted (%v): the harness does not mirror the protocol", err)
		}
		s.Class("health:accepted")
		foreignSig, _ := blindrsa.NewSigner(other).BlindSign(blindedMsg)
		otherMsg := append([]byte{}, blindedMsg...)
		otherMsg[255] ^= 1
		otherMsgSig, _ := blindrsa.NewSigner(key).BlindSign(otherMsg)
		nMinus1 := new(big.Int).Sub(key.N, big.NewInt(1)).Bytes()
		plaintexts := map[string][]byte{
			"foreign-key-signature": foreignSig, "signature-over-other-message": otherMsgSig,
			"empty": {}, "one-byte": {1}, "len255": honestSig[:255], "len257": append(append([]byte{}, honestSig...), 0), "len512": append(append([]byte{}, honestSig...), honestSig...),
			"all-zero": make([]byte, 256), "all-ff": bytes.Repeat([]byte{0xff}, 256), "n-minus-1": nMinus1,
			"random": rapid.SliceOfN(rapid.Byte(), 256, 256).Draw(t, "randomSig"), "leading-zero-prefixed": append([]byte{0}, honestSig[:255]...),
		}
		for name, pt := range plaintexts {
			if pt == nil {
				continue
			}
			finalize(t, s, sess, seal(pt), "crafted:"+name, false, honestResp)
		}
		s.Sample(func() any { return map[string]any{"request": rt.Hex(reqBytes), "honest_response": rt.Hex(honestResp)} })
	})
}

// TestUnusualCreationArguments: request creation with arguments that are legal for the API but never occur in the
// examples, followed by responses computed by the (honest) issuer code. The oracle is C02's and nothing more: whatever
// finalization returns without an error is a token that verifies under the pinned key and is bound to the request.
//   - type 2: salts of a length other than 48 handed to CreateTokenRequestWithBlind. The issuer signs whatever it is
//     given; the token is a standard type-2 token only if it verifies as RSASSA-PSS/SHA-384 with salt length 48.
//   - types 1, 5: the key-id ARGUMENT is the same for two different issuer keys used in turn. The response computed under
//     the FIRST key for the request made for the SECOND key is a foreign-key response and must be rejected.
func TestUnusualCreationArguments(t *testing.T) {
	s := rt.S("unusual-creation-arguments").SetRule("type 2: fixed-blind creation with salt length in {0,1,20,32,47,49,64,48}, honest issuer evaluation, finalize: error, or a token verifying as RSASSA-PSS(SHA-384, sLen=48) over the token input; types 1/5: one key-id argument used with key A (request created, optionally finalized) and then with key B; B's request answered by issuer A must be refused, answered by issuer B it is refused or yields tokens valid under B. A panic is a violation. non-trivial = every case; distinct by (kind, arguments)")
	rt.Check(t, 60, 8000, func(t *rapid.T) {
		defer rt.Entropy(gen.Seed().Draw(t, "entropy"))()
		chal, nonce := gen.Challenge().Draw(t, "challenge"), gen.Bytes32().Draw(t, "nonce")
		s.Eval()
		switch kind := gen.Uniform(t, 5, "kind"); kind {
		case 3:
			// ONE key object of the application is re-used: it holds issuer key A when the first request is created and is then
			// decoded again, in place, with issuer key B (a key rotation) before the second request is created with it. The
			// second request was created for key B.
			seed := gen.Seed().Draw(t, "keyseed")
			kA, kB := gen.OPRFKey(oprf.SuiteP384, append(append([]byte{}, seed...), 'A')), gen.OPRFKey(oprf.SuiteP384, append(append([]byte{}, seed...), 'B'))
			encA, _ := kA.Public().MarshalBinary()
			encB, _ := kB.Public().MarshalBinary()
			pk := new(oprf.PublicKey)
			if err := pk.UnmarshalBinary(oprf.SuiteP384, encA); err != nil {
				t.Fatalf("harness: %v", err)
			}
			s.Class("type1-key-object-redecoded")
			s.Nontrivial([]byte{1, 3}, seed, chal, nonce)
			c := type1.NewBasicPrivateClient()
			idA, idB := gen.OPRFKeyID(kA), gen.OPRFKeyID(kB)
			if _, err := c.CreateTokenRequest(chal, nonce, idA, pk); err != nil {
				t.Fatalf("harness health: creation failed: %v", err)
			}
			if err := pk.UnmarshalBinary(oprf.SuiteP384, encB); err != nil {
				t.Fatalf("harness: %v", err)
			}
			stB, err := c.CreateTokenRequest(chal, nonce, idB, pk)
			if err != nil {
				t.Fatalf("harness health: creation failed: %v", err)
			}
			for _, who := range []struct {
				name string
				k    *oprf.PrivateKey
				must bool
			}{{"key-object-redecoded-foreign-key", kA, true}, {"key-object-redecoded-own-key", kB, false}} {
				resp, err := type1.NewBasicPrivateIssuer(who.k).Evaluate(stB.Request())
				if err != nil {
					continue
				}
				var tok tokens.Token
				var ferr error
				if o := rt.GuardLite(func() { tok, ferr = stB.FinalizeToken(resp) }); o.Panic != nil {
					rt.Fail(t, "C02/type1/"+who.name+"/panic", "finalization panicked: %v", o.Panic)
					return
				}
				if ferr != nil {
					s.Class(who.name + ":rejected")
					continue
				}
				s.Class(who.name + ":accepted")
				if !bytes.Equal(tok.Authenticator, gen.VOPRFOutput(oprf.SuiteP384, kB, gen.AuthInput(1, nonce, chal, idB))) || who.must {
					rt.Fail(t, "C02/type1/"+who.name+"/invalid-token", "the application's key object held key A for an earlier request and was re-decoded with key B before this request was created with it; a response computed under key %s was accepted and the token is not valid under key B", map[bool]string{true: "A", false: "B"}[who.must])
					return
				}
			}
		case 4:
			// fixed-blind creation with a blind that is NOT a scalar encoding (wrong length, nil): creation fails, or whatever
			// finalization later returns without an error verifies
			key := gen.OPRFKey(oprf.SuiteRistretto255, gen.Seed().Draw(t, "keyseed"))
			issuer := type5.NewBatchedPrivateIssuer(key)
			n := gen.UniformRange(t, 1, 3, "batch")
			nonces, blinds := make([][]byte, n), make([][]byte, n)
			for i := range nonces {
				nonces[i], blinds[i] = gen.Bytes32().Draw(t, "nonceI"), gen.RistrettoScalar().Draw(t, "blindI")
			}
			bad := gen.Uniform(t, n, "badPos")
			blinds[bad] = gen.Pick(t, [][]byte{nil, {}, blinds[bad][:31], append(append([]byte{}, blinds[bad]...), 0), bytes.Repeat([]byte{0xff}, 32)}, "badBlind")
			s.Class("type5-malformed-blind")
			s.Nontrivial([]byte{5, 4, byte(bad), byte(len(blinds[bad]))}, chal, bytes.Join(nonces, nil))
			var st type5.BatchedPrivateTokenRequestState
			var err error
			if o := rt.GuardLite(func() {
				st, err = type5.NewBatchedPrivateClient().CreateTokenRequestWithBlinds(chal, nonces, issuer.TokenKeyID(), issuer.TokenKey(), blinds)
			}); o.Panic != nil || err != nil {
				s.Class("creation-refused")
				return
			}
			var resp []byte
			if o := rt.GuardLite(func() { resp, err = issuer.Evaluate(st.Request()) }); o.Panic != nil || err != nil {
				s.Class("issuer-refused")
				return
			}
			var toks []tokens.Token
			if o := rt.GuardLite(func() { toks, err = st.FinalizeTokens(resp) }); o.Panic != nil {
				rt.Fail(t, "C02/type5/malformed-blind/panic", "finalization panicked: %v", o.Panic)
				return
			}
			if err != nil {
				s.Class("rejected")
				return
			}
			for i, tok := range toks {
				if !bytes.Equal(tok.Authenticator, gen.VOPRFOutput(oprf.SuiteRistretto255, key, gen.AuthInput(5, nonces[i], chal, issuer.TokenKeyID()))) {
					rt.Fail(t, "C02/type5/malformed-blind/invalid-token", "request created with a %d-byte blind at position %d (creation reported no error); finalization returned no error, but token %d does not verify", len(blinds[bad]), bad, i)
					return
				}
			}
			s.Class("accepted")
		case 0:
			k := gen.RSAPool()[gen.RSAKey().Draw(t, "rsakey")]
			issuer := type2.NewBasicPublicIssuer(k)
			keyID := issuer.TokenKeyID()
			saltLen := gen.Pick(t, []int{0, 1, 20, 32, 47, 49, 64, 48}, "saltLen")
			salt := gen.Bytes(t, saltLen, saltLen, "salt")
			s.Class(fmt.Sprintf("type2-salt-%d", saltLen))
			s.Nontrivial([]byte{2, byte(saltLen)}, chal, nonce, salt)
			st, err := type2.NewBasicPublicClient().CreateTokenRequestWithBlind(chal, nonce, keyID, &k.PublicKey, gen.RSABlind(t, k.N), salt)
			if err != nil {
				s.Class("creation-refused")
				return
			}
			resp, err := issuer.Evaluate(st.Request())
			if err != nil {
				s.Class("issuer-refused")
				return
			}
			var tok tokens.Token
			o := rt.GuardLite(func() { tok, err = st.FinalizeToken(resp) })
			if o.Panic != nil {
				rt.Fail(t, "C02/type2/salt-length/panic", "finalization panicked (%v) for a request created with a %d-byte salt", o.Panic, saltLen)
				return
			}
			if err != nil {
				s.Class("rejected")
				return
			}
			s.Class("accepted")
			if verr := gen.VerifyPSS(&k.PublicKey, gen.AuthInput(2, nonce, chal, keyID), tok.Authenticator); verr != nil {
				rt.Fail(t, "C02/type2/salt-length/invalid-token", "request created with a %d-byte salt: finalization returned a token without an error, but it does not verify as a type-2 token (RSASSA-PSS, SHA-384, salt length 48): %v", saltLen, verr)
				return
			}
			if berr := gen.CheckTokenBinding(tok, 2, nonce, chal, keyID); berr != nil {
				rt.Fail(t, "C02/type2/salt-length/invalid-token", "token not bound to the request: %v", berr)
			}
		default:
			typ := uint16(1)
			suite := oprf.SuiteP384
			if kind == 2 {
				typ, suite = 5, oprf.SuiteRistretto255
			}
			seed := gen.Seed().Draw(t, "keyseed")
			kA, kB := gen.OPRFKey(suite, append(append([]byte{}, seed...), 'A')), gen.OPRFKey(suite, append(append([]byte{}, seed...), 'B'))
			keyID := gen.Bytes32().Draw(t, "keyID")
			if rapid.Bool().Draw(t, "idOfFirstKey") {
				keyID = gen.OPRFKeyID(kA)
			}
			finalizeFirst := rapid.Bool().Draw(t, "finalizeFirst")
			s.Class(fmt.Sprintf("type%d-same-key-id", typ))
			s.Nontrivial([]byte{byte(typ)}, keyID, seed, chal, nonce)
			tn := gen.TypeName(typ)
			// create (and in half the cases finalize) under key A, then create under key B with the same id
			var evalA, evalB func() ([]byte, error)
			var finB func([]byte) ([]tokens.Token, error)
			if typ == 1 {
				c := type1.NewBasicPrivateClient()
				stA, err := c.CreateTokenRequest(chal, nonce, keyID, kA.Public())
				if err != nil {
					t.Fatalf("harness health: creation failed: %v", err)
				}
				if finalizeFirst {
					if r, err := type1.NewBasicPrivateIssuer(kA).Evaluate(stA.Request()); err == nil {
						_, _ = stA.FinalizeToken(r)
					}
				}
				stB, err := c.CreateTokenRequest(chal, nonce, keyID, kB.Public())
				if err != nil {
					t.Fatalf("harness health: creation failed: %v", err)
				}
				evalA = func() ([]byte, error) { return type1.NewBasicPrivateIssuer(kA).Evaluate(stB.Request()) }
				evalB = func() ([]byte, error) { return type1.NewBasicPrivateIssuer(kB).Evaluate(stB.Request()) }
				finB = func(r []byte) ([]tokens.Token, error) {
					tk, err := stB.FinalizeToken(r)
					return []tokens.Token{tk}, err
				}
			} else {
				c := type5.NewBatchedPrivateClient()
				stA, err := c.CreateTokenRequest(chal, [][]byte{nonce}, keyID, kA.Public())
				if err != nil {
					t.Fatalf("harness health: creation failed: %v", err)
				}
				if finalizeFirst {
					if r, err := type5.NewBatchedPrivateIssuer(kA).Evaluate(stA.Request()); err == nil {
						_, _ = stA.FinalizeTokens(r)
					}
				}
				stB, err := c.CreateTokenRequest(chal, [][]byte{nonce}, keyID, kB.Public())
				if err != nil {
					t.Fatalf("harness health: creation failed: %v", err)
				}
				evalA = func() ([]byte, error) { return type5.NewBatchedPrivateIssuer(kA).Evaluate(stB.Request()) }
				evalB = func() ([]byte, error) { return type5.NewBatchedPrivateIssuer(kB).Evaluate(stB.Request()) }
				finB = stB.FinalizeTokens
			}
			check := func(resp []byte, class string, mustReject bool) bool {
				var toks []tokens.Token
				var err error
				o := rt.GuardLite(func() { toks, err = finB(append([]byte{}, resp...)) })
				if o.Panic != nil {
					rt.Fail(t, fmt.Sprintf("C02/%s/%s/panic", tn, class), "finalization panicked: %v", o.Panic)
					return false
				}
				if err != nil {
					s.Class(class + ":rejected")
					return true
				}
				s.Class(class + ":accepted")
				for _, tok := range toks {
					if !bytes.Equal(tok.Authenticator, gen.VOPRFOutput(suite, kB, gen.AuthInput(typ, nonce, chal, keyID))) || gen.CheckTokenBinding(tok, typ, nonce, chal, keyID) != nil {
						rt.Fail(t, fmt.Sprintf("C02/%s/%s/invalid-token", tn, class), "the key-id argument %x was used with key A and then with key B; finalizing B's request with a response computed under %s returned a token that is not valid under the pinned key B", keyID, class)
						return false
					}
				}
				if mustReject {
					rt.Fail(t, fmt.Sprintf("C02/%s/%s/accepted", tn, class), "response under a foreign key accepted")
					return false
				}
				return true
			}
			if r, err := evalA(); err == nil {
				if !check(r, "same-key-id-foreign-key", true) {
					return
				}
			}
			if r, err := evalB(); err == nil {
				check(r, "same-key-id-own-key", false)
			}
		}
		s.Sample(func() any { return map[string]any{"challenge": rt.Hex(chal), "nonce": rt.Hex(nonce)} })
	})
}

// TestType5LengthPrefixes: the element list of a type-5 response carries a varint length prefix of 1, 2 or 4 bytes
// depending on the batch size (1..1, 2..511, 512.. tokens). For one batch of each form EVERY single-bit variant of the
// prefix (and of the first and last element and the proof start) is handed to the client: a single-bit flip is a
// MUST-REJECT class.
func TestType5LengthPrefixes(t *testing.T) {
	s := rt.S("type5-length-prefixes").SetRule("type-5 batches of 1, 2, 64, 511 and 512 tokens (prefix forms 1, 2, 2, 2, 4 bytes): every bit of the length prefix, of the 4 bytes after it, of the last element and of the first proof byte is flipped in turn; each variant must be refused (or yield only tokens valid for the request). non-trivial = every variant; distinct by (request, bit)")
	rt.Check(t, 1, 32, func(t *rapid.T) {
		defer rt.Entropy(gen.Seed().Draw(t, "entropy"))()
		key := gen.OPRFKey(oprf.SuiteRistretto255, gen.Seed().Draw(t, "keyseed"))
		issuer := type5.NewBatchedPrivateIssuer(key)
		chal := gen.Challenge().Draw(t, "challenge")
		for _, n := range []int{1, 2, 64, 511, 512} {
			nonces := make([][]byte, n)
			base := gen.Bytes32().Draw(t, "nonceBase")
			for i := range nonces {
				nonces[i] = append([]byte{}, base...)
				nonces[i][0], nonces[i][1] = byte(i), byte(i>>8)
			}
			st, err := type5.NewBatchedPrivateClient().CreateTokenRequest(chal, nonces, issuer.TokenKeyID(), issuer.TokenKey())
			if err != nil {
				t.Fatalf("harness health: creation of a %d-token batch failed: %v", n, err)
			}
			resp, err := issuer.Evaluate(st.Request())
			if err != nil {
				t.Fatalf("harness health: issuer: %v", err)
			}
			l, pl, _ := ref.VarintDecode(resp)
			if int(l) != 32*n {
				t.Fatalf("harness: response of a %d-token batch announces %d bytes", n, l)
			}
			var bits []int
			for b := 0; b < (pl+4)*8; b++ {
				bits = append(bits, b)
			}
			for b := (pl + 32*n - 32) * 8; b < (pl+32*n)*8+8; b++ {
				bits = append(bits, b)
			}
			for _, bit := range bits {
				bad := flipBit(resp, bit)
				s.Eval()
				s.Class(fmt.Sprintf("%d-tokens-prefix-%d-bytes", n, pl))
				s.Nontrivial([]byte{byte(n), byte(n >> 8), byte(bit), byte(bit >> 8)}, resp[:40])
				var toks []tokens.Token
				var ferr error
				if o := rt.GuardLite(func() { toks, ferr = st.FinalizeTokens(bad) }); o.Panic != nil {
					rt.Fail(t, "C02/type5/bitflip-length/panic", "finalization panicked on a %d-token response with bit %d flipped: %v", n, bit, o.Panic)
					return
				}
				if ferr == nil {
					rt.Fail(t, "C02/type5/bitflip-length/accepted", "client accepted a %d-token response (prefix %x) with bit %d flipped and returned %d tokens", n, resp[:pl], bit, len(toks))
					return
				}
			}
			if toks, err := st.FinalizeTokens(resp); err != nil || len(toks) != n {
				t.Fatalf("harness health: honest %d-token response not accepted (C01's business): %v", n, err)
			}
		}
		s.Sample(func() any { return "batches of 1, 2, 64, 511, 512 tokens" })
	})
}
