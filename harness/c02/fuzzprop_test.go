package c02

import (
	"testing"

	"verifharness/internal/rt"
)

// The rapid properties of this package under the native, coverage-guided fuzzer (thorough tier): the fuzzer's
// byte string is the stream the property draws from (rt.FuzzProp), so generators, oracle and failure
// signatures are exactly those of the named test.

func FuzzPropType1(f *testing.F)         { rt.FuzzProp(f, rt.Capture(TestType1)) }
func FuzzPropType2(f *testing.F)         { rt.FuzzProp(f, rt.Capture(TestType2)) }
func FuzzPropType3(f *testing.F)         { rt.FuzzProp(f, rt.Capture(TestType3)) }
func FuzzPropType5(f *testing.F)         { rt.FuzzProp(f, rt.Capture(TestType5)) }
func FuzzPropCraftedType3(f *testing.F)  { rt.FuzzProp(f, rt.Capture(TestCraftedType3Responses)) }
func FuzzPropOtherKeySizes(f *testing.F) { rt.FuzzProp(f, rt.Capture(TestOtherKeySizes)) }
func FuzzPropUnusualCreationArguments(f *testing.F) {
	rt.FuzzProp(f, rt.Capture(TestUnusualCreationArguments))
}
