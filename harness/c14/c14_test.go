//go:build verif

// C14 — the Ed25519 fork is bit-compatible with standard Ed25519.
package c14

import (
	"bytes"
	"crypto"
	stded "crypto/ed25519"
	"crypto/sha512"
	"errors"
	"fmt"
	"io"
	"math/big"
	"testing"

	pated "github.com/cloudflare/pat-go/ed25519"
	"pgregory.net/rapid"

	"verifharness/internal/gen"
	"verifharness/internal/ref"
	"verifharness/internal/rt"
)

func TestMain(m *testing.M) { rt.Main(m) }

func message(t *rapid.T) []byte {
	n := gen.Pick(t, []int{0, 1, 31, 32, 63, 64, 65, 111, 112, 127, 128, 129, 300}, "msglen")
	if rapid.Bool().Draw(t, "anylen") {
		n = gen.UniformRange(t, 0, 300, "len")
	}
	if gen.Uniform(t, 8, "longmsg") == 0 {
		// long messages: around the SHA-512 block multiples and the buffer sizes an implementation might pick (64 bytes of R||A
		// go in front of the message), and anything up to 9000 bytes
		n = gen.Pick(t, []int{960, 1023, 1024, 1984, 1985, 2047, 2048, 2049, 4032, 4033, 4095, 4096, 4097, 8128, 8192, 8193}, "longlen")
		if rapid.Bool().Draw(t, "anylong") {
			n = gen.UniformRange(t, 300, 9000, "longany")
		}
	}
	return rapid.SliceOfN(rapid.Byte(), n, n).Draw(t, "msg")
}

func TestKeysAndSignatures(t *testing.T) {
	s := rt.S("keys-and-signatures").SetRule("seed (incl. all-zero / all-ff) and message of length 0..300 (one in eight: 300..9000, around 1024/2048/4096/8192 and those minus the 64-byte R||A prefix): NewKeyFromSeed, Sign, PrivateKey.Sign (crypto.Hash(0)), Public(), Seed() byte-equal to crypto/ed25519; PrivateKey.Sign with a real hash refuses like the standard library; the signature verifies under both verifiers. non-trivial = every case; distinct by (seed, message)")
	rt.Check(t, 1500, 300000, func(t *rapid.T) {
		seed := gen.Bytes32().Draw(t, "seed")
		msg := message(t)
		s.Eval()
		s.Nontrivial(seed, msg)
		// the seed lies at the head of a larger buffer of the caller (the first half of a SHA-512 output, a record with
		// other data behind it): key derivation must neither write behind the seed nor keep referring to it
		rec := make([]byte, 96)
		copy(rec, seed)
		for i := 32; i < 96; i++ {
			rec[i] = byte(0xA0 + i)
		}
		pk, sk := pated.NewKeyFromSeed(rec[:32]), stded.NewKeyFromSeed(seed)
		for i := 32; i < 96; i++ {
			if rec[i] != byte(0xA0+i) {
				rt.Fail(t, "C14/newkeyfromseed-wrote-behind-seed", "NewKeyFromSeed(seed) with the seed at the head of a larger buffer changed byte %d behind it", i)
				return
			}
		}
		for i := range rec {
			rec[i] = 0 // the caller wipes its seed record
		}
		if !bytes.Equal(pk, sk) {
			rt.Fail(t, "C14/newkeyfromseed", "NewKeyFromSeed(%x) = %x, crypto/ed25519 gives %x", seed, []byte(pk), []byte(sk))
			return
		}
		if !bytes.Equal(pk.Public().(pated.PublicKey), sk.Public().(stded.PublicKey)) || !bytes.Equal(pk.Seed(), sk.Seed()) {
			rt.Fail(t, "C14/public-seed", "Public()/Seed() differ from crypto/ed25519")
			return
		}
		if p := pk.Public().(pated.PublicKey); len(p) == 32 {
			p[0] ^= 0xFF // Public() hands out a copy: overwriting it must not touch the private key
			if !bytes.Equal(pk, sk) {
				rt.Fail(t, "C14/public-aliased", "overwriting the value returned by Public() changed the private key")
				return
			}
		}
		ps, ss := pated.Sign(pk, msg), stded.Sign(sk, msg)
		if !bytes.Equal(ps, ss) {
			rt.Fail(t, "C14/sign", "Sign differs from crypto/ed25519: seed %x msg %x\n got %x\nwant %x", seed, msg, ps, ss)
			return
		}
		ps2, err := pk.Sign(nil, msg, crypto.Hash(0))
		if err != nil || !bytes.Equal(ps2, ss) {
			rt.Fail(t, "C14/signer", "PrivateKey.Sign differs from crypto/ed25519 (%v)", err)
			return
		}
		if _, err := pk.Sign(nil, msg, crypto.SHA256); err == nil {
			rt.Fail(t, "C14/signer-hash", "PrivateKey.Sign accepted a pre-hashed message (crypto/ed25519 of this Go version refuses SHA-256)")
			return
		}
		if !pated.Verify(pk.Public().(pated.PublicKey), msg, ss) || !stded.Verify(sk.Public().(stded.PublicKey), msg, ps) {
			rt.Fail(t, "C14/verify-honest", "honest signature rejected")
			return
		}
		// the application keeps ONE 64-byte key buffer and loads another key into it between two signing calls:
		// every signature must be the standard library's for the key that is in the buffer at the time of the call
		seed2 := gen.Bytes32().Draw(t, "seed2")
		buf := make(pated.PrivateKey, 64)
		copy(buf, pk)
		first := pated.Sign(buf, msg)
		copy(buf, pated.NewKeyFromSeed(seed2))
		second := pated.Sign(buf, msg)
		third, err3 := buf.Sign(nil, msg, crypto.Hash(0))
		want2 := stded.Sign(stded.NewKeyFromSeed(seed2), msg)
		if !bytes.Equal(first, ss) || !bytes.Equal(second, want2) || err3 != nil || !bytes.Equal(third, want2) {
			rt.Fail(t, "C14/sign-key-buffer-reused", "one key buffer held the key of seed %x, then of seed %x: the signatures made from it are not crypto/ed25519's for the key it held at the time (first ok=%v second ok=%v third ok=%v)", seed, seed2, bytes.Equal(first, ss), bytes.Equal(second, want2), bytes.Equal(third, want2))
			return
		}
		// and back again (the first key returns to the same buffer)
		copy(buf, pk)
		if again := pated.Sign(buf, msg); !bytes.Equal(again, ss) {
			rt.Fail(t, "C14/sign-key-buffer-reused", "key buffer reloaded with its first key: signature differs from crypto/ed25519's")
			return
		}
		s.Sample(func() any { return map[string]any{"seed": rt.Hex(seed), "msg_len": len(msg), "sig": rt.Hex(ps)} })
	})
}

var errInjected = errors.New("injected entropy failure")

type countingReader struct {
	src      io.Reader
	good     int // bytes delivered before failing; <0: never fail
	chunk    int
	withData bool // deliver the last good bytes together with the error (io.Reader allows n > 0 with err != nil)
	consumed int
	calls    int
}

func (c *countingReader) Read(p []byte) (int, error) {
	c.calls++
	if len(p) == 0 {
		return 0, nil
	}
	n := len(p)
	if c.chunk > 0 && n > c.chunk {
		n = c.chunk
	}
	if c.good >= 0 {
		if c.good == 0 {
			return 0, errInjected
		}
		if n > c.good {
			n = c.good
		}
		c.good -= n
	}
	io.ReadFull(c.src, p[:n])
	c.consumed += n
	if c.withData && c.good == 0 {
		return n, errInjected
	}
	return n, nil
}

func TestGenerateKeyEntropy(t *testing.T) {
	s := rt.S("generatekey-entropy").SetRule("fault enumeration: GenerateKey with an entropy reader that fails after p bytes for EVERY p in 0..33 and never, under read chunkings of 1, 5, 32 and unlimited bytes, for drawn entropy; keys, error and bytes consumed must equal crypto/ed25519.GenerateKey's on an identical reader. non-trivial = every (p, chunking, entropy); distinct by those")
	rt.Check(t, 20, 2000, func(t *rapid.T) {
		seed := gen.Seed().Draw(t, "entropy")
		for p := -1; p <= 33; p++ {
			for ci, chunk := range []int{0, 1, 5, 32, 0, 7} {
				withData := ci >= 4 // two more variants: the error arrives together with the last bytes
				a := &countingReader{src: rt.NewDRBG(seed), good: p, chunk: chunk, withData: withData}
				b := &countingReader{src: rt.NewDRBG(seed), good: p, chunk: chunk, withData: withData}
				ppub, ppriv, perr := pated.GenerateKey(a)
				spub, spriv, serr := stded.GenerateKey(b)
				s.Eval()
				s.Nontrivial(seed, []byte{byte(p + 1), byte(chunk), byte(ci)})
				if (perr == nil) != (serr == nil) || (perr != nil && !errors.Is(perr, serr) && perr.Error() != serr.Error()) {
					rt.Fail(t, "C14/generatekey-error", "reader failing after %d bytes (chunk %d): fork error %v, crypto/ed25519 error %v", p, chunk, perr, serr)
					return
				}
				if !bytes.Equal(ppub, spub) || !bytes.Equal(ppriv, spriv) {
					rt.Fail(t, "C14/generatekey-keys", "GenerateKey output differs from crypto/ed25519 on the same entropy (p=%d)", p)
					return
				}
				if a.consumed != b.consumed {
					rt.Fail(t, "C14/generatekey-consumption", "GenerateKey consumed %d bytes, crypto/ed25519 %d (p=%d chunk=%d)", a.consumed, b.consumed, p, chunk)
					return
				}
				if perr == nil {
					// the two results are independent values: the caller may overwrite the public key it was handed
					for i := range ppub {
						ppub[i] ^= 0xFF
					}
					if !bytes.Equal(ppriv, spriv) || !bytes.Equal(ppriv.Public().(pated.PublicKey), spriv.Public().(stded.PublicKey)) {
						rt.Fail(t, "C14/generatekey-aliased", "after the caller overwrote the public key returned by GenerateKey, the private key differs from crypto/ed25519's")
						return
					}
					if m := []byte("m"); !bytes.Equal(pated.Sign(ppriv, m), stded.Sign(spriv, m)) {
						rt.Fail(t, "C14/generatekey-aliased", "after the caller overwrote the returned public key, signatures differ from crypto/ed25519's")
						return
					}
				}
				if perr != nil && (ppub != nil || ppriv != nil) {
					rt.Fail(t, "C14/generatekey-error", "GenerateKey returned a key together with an error")
					return
				}
			}
		}
		s.MarkExhaustive("every failure position 0..33 of the entropy reader x 4 chunkings, per drawn entropy")
		s.Sample(func() any { return map[string]any{"entropy": rt.Hex(seed)} })
	})
}

// ---------------------------------------------------------------- verification differential

var (
	smallOrder    [][]byte // canonical encodings of the 8 small-order points
	nonCanonicalA [][]byte // non-canonical encodings of points: y >= p, and x = 0 with the sign bit set
)

func init() {
	for _, p := range ref.EdSmallOrderPoints() {
		smallOrder = append(smallOrder, ref.EdEncode(p))
	}
	// y in [p, 2^255): encodings of y' = y - p in [0, 18]; add both sign bits
	for k := int64(0); k < 19; k++ {
		v := new(big.Int).Add(ref.EdP, big.NewInt(k))
		le := make([]byte, 32)
		be := v.Bytes()
		for i := range be {
			le[len(be)-1-i] = be[i]
		}
		for _, sign := range []byte{0, 0x80} {
			e := append([]byte{}, le...)
			e[31] |= sign
			nonCanonicalA = append(nonCanonicalA, e)
		}
	}
	// x = 0 points with the sign bit set: y = 1 and y = -1
	one := make([]byte, 32)
	one[0] = 1
	one[31] = 0x80
	nonCanonicalA = append(nonCanonicalA, one)
	m1 := ref.EdEncode(ref.EdPoint{X: big.NewInt(0), Y: new(big.Int).Sub(ref.EdP, big.NewInt(1))})
	m1[31] |= 0x80
	nonCanonicalA = append(nonCanonicalA, m1)
	canon := make([]byte, 32)
	canon[0] = 1
	identityEncodings = [][]byte{canon}
	for _, e := range nonCanonicalA {
		if p, ok := ref.EdDecode(e); ok && p.X.Sign() == 0 && p.Y.Cmp(big.NewInt(1)) == 0 {
			identityEncodings = append(identityEncodings, e)
		}
	}
	if len(identityEncodings) < 4 {
		panic("expected the canonical and three non-canonical encodings of the identity")
	}
}

// every 32-byte string that decodes to the identity (0, 1): the canonical one and the non-canonical ones (filled by init)
var identityEncodings [][]byte

func leAdd(sBytes []byte, v *big.Int) ([]byte, bool) {
	x := new(big.Int).Add(ref.EdScalarIntRaw(sBytes), v)
	if x.Sign() < 0 || x.BitLen() > 256 {
		return nil, false
	}
	return ref.IntToLE(x, 32), true
}

func TestVerifyDifferential(t *testing.T) {
	s := rt.S("verify").SetRule("(public key, message, signature) built structurally from an honest triple: S+L, S+2L.., S with top bits set, S in {0, 1, L-1, L, L+1}, R or A replaced by each of the 8 small-order points, by non-canonical encodings (y >= p, x=0 with sign bit), by random 32-byte strings, forged signatures R=[S]B under small-order/non-canonical keys (valid when [k]A is the identity), other message, bit flips, signatures of length 0/63/65; oracle: fork Verify == crypto/ed25519.Verify. non-trivial = differs from the honest triple; distinct by (A, M, sig)")
	rt.Check(t, 3000, 600000, func(t *rapid.T) {
		seed := gen.Bytes32().Draw(t, "seed")
		msg := message(t)
		sk := stded.NewKeyFromSeed(seed)
		A := append([]byte{}, sk.Public().(stded.PublicKey)...)
		sig := stded.Sign(sk, msg)
		R, S := append([]byte{}, sig[:32]...), append([]byte{}, sig[32:]...)
		class := gen.Pick(t, []string{"honest", "S+kL", "S-topbits", "S-special", "R-smallorder", "A-smallorder", "A-noncanonical", "R-noncanonical",
			"A-random", "R-random", "forged-identity-like-key", "other-message", "bitflip", "length", "S-random", "A-smallorder-random-sig", "forged-noncanonical-R"}, "class")
		switch class {
		case "S+kL":
			k := int64(gen.UniformRange(t, 1, 16, "k"))
			if v, ok := leAdd(S, new(big.Int).Mul(ref.EdL, big.NewInt(k))); ok {
				S = v
			}
		case "S-topbits":
			S[31] |= gen.Pick(t, []byte{0x20, 0x40, 0x80, 0xe0, 0x10}, "bits")
		case "S-special":
			v := gen.Pick(t, []*big.Int{big.NewInt(0), big.NewInt(1), new(big.Int).Sub(ref.EdL, big.NewInt(1)), ref.EdL, new(big.Int).Add(ref.EdL, big.NewInt(1)),
				new(big.Int).Sub(new(big.Int).Lsh(big.NewInt(1), 253), big.NewInt(1)), new(big.Int).Sub(new(big.Int).Lsh(big.NewInt(1), 256), big.NewInt(1))}, "special")
			S = ref.IntToLE(v, 32)
		case "S-random":
			S = rapid.SliceOfN(rapid.Byte(), 32, 32).Draw(t, "S")
			if rapid.Bool().Draw(t, "clear") {
				S[31] &= 0x0f
			}
		case "R-smallorder":
			R = append([]byte{}, gen.Pick(t, smallOrder, "so")...)
		case "A-smallorder":
			A = append([]byte{}, gen.Pick(t, smallOrder, "so")...)
		case "A-smallorder-random-sig":
			A = append([]byte{}, gen.Pick(t, smallOrder, "so")...)
			R = append([]byte{}, gen.Pick(t, smallOrder, "so2")...)
			S = make([]byte, 32)
		case "A-noncanonical":
			A = append([]byte{}, gen.Pick(t, nonCanonicalA, "nc")...)
		case "R-noncanonical":
			R = append([]byte{}, gen.Pick(t, nonCanonicalA, "nc")...)
		case "A-random":
			A = rapid.SliceOfN(rapid.Byte(), 32, 32).Draw(t, "A")
		case "R-random":
			R = rapid.SliceOfN(rapid.Byte(), 32, 32).Draw(t, "R")
		case "forged-identity-like-key":
			// R = [S]B verifies whenever [k]A is the identity: always for A = identity (in any encoding), with probability 1/order otherwise
			A = append([]byte{}, gen.Pick(t, append(append([][]byte{}, smallOrder...), nonCanonicalA...), "key")...)
			S = ref.EdScalarLE(rapid.SliceOfN(rapid.Byte(), 32, 32).Draw(t, "S"))
			if gen.Uniform(t, 3, "largeCanonicalS") == 0 {
				// canonical S with bit 252 set (2^252 <= S < L): an honest signer produces one with probability ~2^-127
				top := new(big.Int).Lsh(big.NewInt(1), 252)
				S = ref.IntToLE(gen.Pick(t, []*big.Int{top, new(big.Int).Add(top, big.NewInt(1)), new(big.Int).Sub(ref.EdL, big.NewInt(1)), new(big.Int).Sub(ref.EdL, big.NewInt(2)),
					new(big.Int).Add(top, new(big.Int).Rsh(new(big.Int).Sub(ref.EdL, top), 1))}, "Sval"), 32)
			}
			R = ref.EdEncode(ref.EdScalarMult(ref.EdScalarInt(S), ref.EdBase()))
		case "forged-noncanonical-R":
			// [S]B = R + [k]A holds with A = identity, S = 0, R = identity: valid when R is the canonical encoding;
			// the standard library compares R's BYTES, so every non-canonical encoding of the identity must be rejected
			A = append([]byte{}, gen.Pick(t, identityEncodings, "Aenc")...)
			R = append([]byte{}, gen.Pick(t, identityEncodings, "Renc")...)
			S = make([]byte, 32)
		case "other-message":
			msg = append(append([]byte{}, msg...), 0)
		case "bitflip":
			all := append(append(append([]byte{}, A...), R...), S...)
			bit := gen.Uniform(t, len(all)*8, "bit")
			all[bit/8] ^= 1 << (7 - bit%8)
			A, R, S = all[:32], all[32:64], all[64:]
		}
		full := append(append([]byte{}, R...), S...)
		if class == "length" {
			full = gen.Pick(t, [][]byte{{}, full[:63], append(append([]byte{}, full...), 0), full[:32], nil}, "len")
		}
		s.Eval()
		s.Class(class)
		want := stded.Verify(stded.PublicKey(A), msg, full)
		var got bool
		if o := rt.GuardLite(func() { got = pated.Verify(pated.PublicKey(A), msg, full) }); o.Panic != nil {
			rt.Fail(t, "C14/verify-panic", "fork Verify panicked: %v (A %x sig %x)", o.Panic, A, full)
			return
		}
		if want {
			s.Class("std:valid")
		}
		if got != want {
			rt.Fail(t, "C14/verify-verdict/"+class, "fork Verify=%v, crypto/ed25519.Verify=%v; class %s A %x msg %x sig %x", got, want, class, A, msg, full)
			return
		}
		if class != "honest" {
			s.Nontrivial(A, msg, full)
		}
		s.Sample(func() any { return map[string]any{"class": class, "A": rt.Hex(A), "sig": rt.Hex(full), "verdict": got} })
	})
}

// ---------------------------------------------------------------- internal arithmetic against the math/big model (verif hooks)

var limbEdges = func() [][]byte {
	var out [][]byte
	add := func(v *big.Int, n int) {
		if v.Sign() >= 0 && v.BitLen() <= 8*n {
			out = append(out, ref.IntToLE(v, n))
		}
	}
	one := big.NewInt(1)
	for _, n := range []int{32, 64} {
		for k := 0; k <= 8*n; k += 21 { // ref10 scalar limbs are 21 bits wide
			p := new(big.Int).Lsh(one, uint(k))
			add(new(big.Int).Sub(p, one), n)
			add(p, n)
			add(new(big.Int).Add(p, one), n)
		}
		add(new(big.Int).Sub(new(big.Int).Lsh(one, uint(8*n)), one), n)
		for _, m := range []*big.Int{ref.EdL, ref.EdP} {
			for d := int64(-2); d <= 2; d++ {
				add(new(big.Int).Add(m, big.NewInt(d)), n)
				add(new(big.Int).Add(new(big.Int).Mul(m, big.NewInt(2)), big.NewInt(d)), n)
				add(new(big.Int).Add(new(big.Int).Mul(m, big.NewInt(15)), big.NewInt(d)), n)
			}
		}
	}
	return out
}()

func scalarInput(t *rapid.T, n int, label string) []byte {
	if rapid.Bool().Draw(t, label+"/edge") {
		for i := 0; i < 20; i++ {
			e := gen.Pick(t, limbEdges, label+"/e")
			if len(e) == n {
				return append([]byte{}, e...)
			}
		}
	}
	b := rapid.SliceOfN(rapid.Byte(), n, n).Draw(t, label)
	switch gen.Uniform(t, 4, label+"/fill") {
	case 0:
		for i := range b {
			b[i] = 0xff
		}
		b[gen.Uniform(t, n, label+"/pos")] = rapid.Byte().Draw(t, label+"/v")
	case 1:
		for i := range b {
			if i%3 != 0 {
				b[i] = 0xff
			}
		}
	}
	return b
}

func TestScalarArithmetic(t *testing.T) {
	s := rt.S("scalar-arithmetic").SetRule("verif hooks: 64-byte reduction (scReduce via SetUniformBytes), the fork-specific 32-byte SetBytes, SetBytesWithClamping, SetCanonicalBytes/isReduced, MultiplyAdd (scMulAdd), Add/Subtract/Negate/Multiply and the fork-specific ModInverse against math/big mod l, on inputs biased to 21-bit limb boundaries, 2^k+-1, k*l+-2, k*p+-2, all-ones patterns. non-trivial = every case; distinct by inputs")
	rt.Check(t, 5000, 1000000, func(t *rapid.T) {
		w := scalarInput(t, 64, "wide")
		a, b, c := scalarInput(t, 32, "a"), scalarInput(t, 32, "b"), scalarInput(t, 32, "c")
		s.Eval()
		s.Nontrivial(w, a, b, c)
		L := ref.EdL
		ai, bi, ci := ref.EdScalarInt(a), ref.EdScalarInt(b), ref.EdScalarInt(c)
		eq := func(name string, got []byte, want *big.Int) bool {
			if !bytes.Equal(got, ref.EdScalarBytes(want)) {
				rt.Fail(t, "C14/scalar/"+name, "%s: got %x, math/big says %x (inputs wide %x a %x b %x c %x)", name, got, ref.EdScalarBytes(want), w, a, b, c)
				return false
			}
			return true
		}
		if !eq("reduce-wide", pated.VerifScalarReduceWide(w), ref.EdScalarInt(w)) ||
			!eq("setbytes", pated.VerifScalarSetBytes(a), ai) ||
			!eq("muladd", pated.VerifScalarMulAdd(a, b, c), new(big.Int).Add(new(big.Int).Mul(ai, bi), ci)) {
			return
		}
		cl := append([]byte{}, a...)
		cl[0] &= 248
		cl[31] &= 63
		cl[31] |= 64
		if !eq("clamp", pated.VerifScalarSetBytesWithClamping(a), ref.EdScalarInt(cl)) {
			return
		}
		sum, diff, neg, prod := pated.VerifScalarOps(a, b)
		if !eq("add", sum, new(big.Int).Add(ai, bi)) || !eq("sub", diff, new(big.Int).Sub(ai, bi)) || !eq("neg", neg, new(big.Int).Neg(ai)) || !eq("mul", prod, new(big.Int).Mul(ai, bi)) {
			return
		}
		canon, ok := pated.VerifScalarSetCanonical(a)
		raw := ref.EdScalarIntRaw(a)
		if ok != (raw.Cmp(L) < 0) || (ok && !bytes.Equal(canon, a)) {
			rt.Fail(t, "C14/scalar/canonical", "SetCanonicalBytes(%x) ok=%v, value < l is %v", a, ok, raw.Cmp(L) < 0)
			return
		}
		if ai.Sign() != 0 {
			if !eq("invert", pated.VerifScalarInvert(a), new(big.Int).ModInverse(ai, L)) {
				return
			}
		}
		// scalars whose INVERSE is short (1..31 significant bytes): x drawn with that many bytes, input = x^-1 mod l
		short := gen.Bytes(t, 1, 31, "shortInverse")
		if x := new(big.Int).Mod(new(big.Int).SetBytes(short), L); x.Sign() != 0 {
			in := ref.EdScalarBytes(new(big.Int).ModInverse(x, L))
			if got := pated.VerifScalarInvert(in); !bytes.Equal(got, ref.EdScalarBytes(x)) {
				rt.Fail(t, "C14/scalar/invert-short-result", "ModInverse(%x) = %x, math/big says %x (a %d-byte value)", in, got, ref.EdScalarBytes(x), len(short))
				return
			}
		}
		s.Sample(func() any { return map[string]any{"a": rt.Hex(a), "b": rt.Hex(b), "wide": rt.Hex(w)} })
	})
}

func pointInput(t *rapid.T, label string) []byte {
	switch gen.Uniform(t, 6, label+"/kind") {
	case 0:
		return append([]byte{}, gen.Pick(t, smallOrder, label+"/so")...)
	case 1:
		return append([]byte{}, gen.Pick(t, nonCanonicalA, label+"/nc")...)
	case 2:
		return rapid.SliceOfN(rapid.Byte(), 32, 32).Draw(t, label+"/rand")
	case 3:
		// torsioned point: prime-order point plus a small-order one
		k := ref.EdScalarInt(rapid.SliceOfN(rapid.Byte(), 32, 32).Draw(t, label+"/k"))
		tor, _ := ref.EdDecode(gen.Pick(t, smallOrder, label+"/tor"))
		return ref.EdEncode(ref.EdAdd(ref.EdScalarMult(k, ref.EdBase()), tor))
	}
	k := ref.EdScalarInt(scalarInput(t, 32, label+"/k"))
	return ref.EdEncode(ref.EdScalarMult(k, ref.EdBase()))
}

func TestPointArithmetic(t *testing.T) {
	s := rt.S("point-arithmetic").SetRule("verif hooks: point decoding (incl. small-order, non-canonical, torsioned and random encodings) and re-encoding, Add/Subtract/Negate, ScalarMult, ScalarBaseMult, VarTimeDoubleScalarBaseMult against the affine math/big model (double-and-add), scalars biased as above. non-trivial = every case; distinct by inputs")
	rt.Check(t, 600, 60000, func(t *rapid.T) {
		pe, qe := pointInput(t, "p"), pointInput(t, "q")
		a, b := scalarInput(t, 32, "a"), scalarInput(t, 32, "b")
		s.Eval()
		s.Nontrivial(pe, qe, a, b)
		pm, pok := ref.EdDecode(pe)
		got, ok := pated.VerifPointDecode(pe)
		if ok != pok || (ok && !bytes.Equal(got, ref.EdEncode(pm))) {
			rt.Fail(t, "C14/point/decode", "decode(%x): fork ok=%v %x, model ok=%v %x", pe, ok, got, pok, ref.EdEncode(pm))
			return
		}
		bm := ref.EdEncode(ref.EdScalarMult(ref.EdScalarInt(a), ref.EdBase()))
		if g := pated.VerifPointScalarBaseMult(a); !bytes.Equal(g, bm) {
			rt.Fail(t, "C14/point/basemult", "[%x]B: fork %x, model %x", a, g, bm)
			return
		}
		qm, qok := ref.EdDecode(qe)
		if !pok || !qok {
			s.Class("undecodable")
			return
		}
		sum, diff, neg := pated.VerifPointOps(pe, qe)
		if !bytes.Equal(sum, ref.EdEncode(ref.EdAdd(pm, qm))) || !bytes.Equal(diff, ref.EdEncode(ref.EdAdd(pm, ref.EdNeg(qm)))) || !bytes.Equal(neg, ref.EdEncode(ref.EdNeg(pm))) {
			rt.Fail(t, "C14/point/addsub", "p+q / p-q / -p differ from the model for p %x q %x", pe, qe)
			return
		}
		if g, w := pated.VerifPointScalarMult(a, pe), ref.EdEncode(ref.EdScalarMult(ref.EdScalarInt(a), pm)); !bytes.Equal(g, w) {
			rt.Fail(t, "C14/point/scalarmult", "[%x]%x: fork %x, model %x", a, pe, g, w)
			return
		}
		w := ref.EdEncode(ref.EdAdd(ref.EdScalarMult(ref.EdScalarInt(a), pm), ref.EdScalarMult(ref.EdScalarInt(b), ref.EdBase())))
		if g := pated.VerifPointDoubleScalarBaseMult(a, pe, b); !bytes.Equal(g, w) {
			rt.Fail(t, "C14/point/doublescalarbasemult", "[a]A+[b]B: fork %x, model %x (a %x A %x b %x)", g, w, a, pe, b)
			return
		}
		s.Sample(func() any { return map[string]any{"p": rt.Hex(pe), "q": rt.Hex(qe), "a": rt.Hex(a)} })
	})
}

var _ = sha512.New
var _ = fmt.Sprint
