//go:build verif

package c14

import (
	stded "crypto/ed25519"
	"crypto/sha512"
	"encoding/hex"
	"fmt"
	"os"
	"os/exec"
	"strings"
	"testing"

	"bytes"

	pated "github.com/cloudflare/pat-go/ed25519"
	"pgregory.net/rapid"

	"verifharness/internal/gen"
	"verifharness/internal/rt"
)

// firstUseOps are the calls of the fork that can be the first one a process makes. Everything a call needs (keys,
// messages, expected signatures) is prepared with the standard library only, so that the drawn call really is the first
// one to touch the fork's lazily built tables.
var firstUseOps = []string{"verify-valid", "verify-invalid", "sign", "newkey", "public"}

func firstUseRun(seedHex string, ops []string) error {
	seed, err := hex.DecodeString(seedHex)
	if err != nil {
		return err
	}
	for i, op := range ops {
		h := sha512.Sum512(append(append([]byte{}, seed...), byte(i)))
		sk := stded.NewKeyFromSeed(h[:32])
		pub := sk.Public().(stded.PublicKey)
		msg := h[32 : 32+int(h[63])%32]
		sig := stded.Sign(sk, msg)
		switch op {
		case "verify-valid":
			if !pated.Verify(pated.PublicKey(pub), msg, sig) {
				return fmt.Errorf("step %d: Verify refuses a signature of crypto/ed25519 (key %x msg %x sig %x)", i, pub, msg, sig)
			}
		case "verify-invalid":
			bad := append([]byte{}, sig...)
			bad[int(h[62])%64] ^= 1 << (h[61] % 8)
			if pated.Verify(pated.PublicKey(pub), msg, bad) != stded.Verify(pub, msg, bad) {
				return fmt.Errorf("step %d: Verify disagrees with crypto/ed25519 on a signature with one bit flipped (key %x msg %x sig %x)", i, pub, msg, bad)
			}
		case "sign":
			if got := pated.Sign(pated.PrivateKey(append([]byte{}, sk...)), msg); !bytes.Equal(got, sig) {
				return fmt.Errorf("step %d: Sign = %x, crypto/ed25519 gives %x", i, got, sig)
			}
		case "newkey":
			if got := pated.NewKeyFromSeed(h[:32]); !bytes.Equal(got, sk) {
				return fmt.Errorf("step %d: NewKeyFromSeed = %x, crypto/ed25519 gives %x", i, got, sk)
			}
		case "public":
			if got := pated.PrivateKey(append([]byte{}, sk...)).Public().(pated.PublicKey); !bytes.Equal(got, pub) {
				return fmt.Errorf("step %d: Public = %x, crypto/ed25519 gives %x", i, got, pub)
			}
		default:
			return fmt.Errorf("harness: unknown op %q", op)
		}
	}
	return nil
}

func TestFirstCallChild(t *testing.T) {
	plan := os.Getenv("VERIF_C14_FIRSTCALL")
	if plan == "" {
		t.Skip("not a child")
	}
	parts := strings.Split(plan, ":")
	if err := firstUseRun(parts[0], strings.Split(parts[1], ",")); err != nil {
		t.Fatal(err)
	}
}

func TestFirstCallInFreshProcess(t *testing.T) {
	s := rt.S("first-call").SetRule("a fresh process (the test binary re-executed) whose FIRST call of the fork is a drawn one of Verify (valid / one bit flipped), Sign, NewKeyFromSeed, Public, followed by 1..5 further drawn calls; keys, messages and expected signatures come from crypto/ed25519 only; oracle: every call agrees with crypto/ed25519. non-trivial = every case; distinct by (seed, calls)")
	rt.Check(t, 24, 600, func(t *rapid.T) {
		seedHex := fmt.Sprintf("%x", gen.Seed().Draw(t, "seed"))
		n := gen.UniformRange(t, 2, 6, "ncalls")
		var ops []string
		for i := 0; i < n; i++ {
			ops = append(ops, gen.Pick(t, firstUseOps, "op"))
		}
		plan := seedHex + ":" + strings.Join(ops, ",")
		s.Eval()
		s.Class("first=" + ops[0])
		s.Nontrivial([]byte(plan))
		cmd := exec.Command(os.Args[0], "-test.run", "^TestFirstCallChild$", "-test.count=1")
		cmd.Env = append(os.Environ(), "VERIF_C14_FIRSTCALL="+plan, "VERIF_OUT=")
		out, err := cmd.CombinedOutput()
		if err != nil {
			txt := string(out)
			if len(txt) > 3000 {
				txt = txt[:3000]
			}
			rt.Fail(t, "C14/first-call/"+ops[0], "a fresh process whose calls of the fork are %s (seed %s) disagrees with crypto/ed25519 (%v)\n%s", strings.Join(ops, ","), seedHex, err, txt)
			return
		}
		s.Sample(func() any { return map[string]any{"seed": seedHex, "calls": ops} })
	})
}

var _ = rapid.Bool
