//go:build verif

package c14

import (
	stded "crypto/ed25519"
	"testing"

	pated "github.com/cloudflare/pat-go/ed25519"

	"verifharness/internal/ref"
)

// FuzzVerify: coverage-guided differential against crypto/ed25519.Verify.
func FuzzVerify(f *testing.F) {
	seed := make([]byte, 32)
	sk := stded.NewKeyFromSeed(seed)
	msg := []byte("fuzz")
	sig := stded.Sign(sk, msg)
	f.Add([]byte(sk.Public().(stded.PublicKey)), msg, sig)
	for _, a := range identityEncodings {
		for _, r := range identityEncodings {
			f.Add(a, msg, append(append([]byte{}, r...), make([]byte, 32)...))
		}
	}
	for _, so := range smallOrder {
		f.Add(so, msg, sig)
		f.Add([]byte(sk.Public().(stded.PublicKey)), msg, append(append([]byte{}, so...), sig[32:]...))
	}
	sL := append(append([]byte{}, sig[:32]...), ref.IntToLE(ref.EdL, 32)...)
	f.Add([]byte(sk.Public().(stded.PublicKey)), msg, sL)
	f.Fuzz(func(t *testing.T, pub, m, s []byte) {
		key := make([]byte, 32) // the key length is the caller's contract (documented panic)
		copy(key, pub)
		want := stded.Verify(stded.PublicKey(key), m, s)
		got := pated.Verify(pated.PublicKey(key), m, s)
		if got != want {
			t.Fatalf("SIG=C14/fuzz/verify-verdict fork %v, crypto/ed25519 %v; A %x msg %x sig %x", got, want, key, m, s)
		}
	})
}
