// C07 — the rate-limited issuer signs only authentic, untampered requests.
package c07

import (
	"bytes"
	stdecdsa "crypto/ecdsa"
	"crypto/elliptic"
	"crypto/rand"
	"crypto/sha256"
	"crypto/sha512"
	"fmt"
	"math/big"
	"strings"
	"testing"

	hpke "github.com/cisco/go-hpke"
	"github.com/cloudflare/pat-go/tokens/type3"
	"pgregory.net/rapid"

	"verifharness/internal/gen"
	"verifharness/internal/ref"
	"verifharness/internal/rt"
)

func TestMain(m *testing.M) { rt.Main(m) }

func suite() hpke.CipherSuite {
	s, err := hpke.AssembleCipherSuite(hpke.DHKEM_X25519, hpke.KDF_HKDF_SHA256, hpke.AEAD_AESGCM128)
	if err != nil {
		panic(err)
	}
	return s
}

// crafted request parameters: everything an attacker with its own signing key can choose.
type craft struct {
	nameKeyEnc   []byte // the issuer's published name key (39 bytes)
	signer       *stdecdsa.PrivateKey
	requestKey   []byte // what goes on the wire as request_key
	aadKey       []byte // request key bound into the HPKE associated data
	nameKeyID    []byte // wire issuer_encap_key_id
	aadNameKeyID []byte
	inner        []byte // plaintext inner request
	signOver     func(wireWithoutSig []byte) []byte
}

func (c craft) build() []byte {
	su := suite()
	pk, err := su.KEM.DeserializePublicKey(c.nameKeyEnc[3:35])
	if err != nil {
		panic(err)
	}
	enc, ctx, err := hpke.SetupBaseS(su, rand.Reader, pk, []byte("TokenRequest"))
	if err != nil {
		panic(err)
	}
	aad := []byte{c.nameKeyEnc[0], 0x00, 0x20, 0x00, 0x01, 0x00, 0x01, 0x00, 0x03}
	aad = append(append(aad, c.aadKey...), c.aadNameKeyID...)
	ct := append(enc, ctx.Seal(aad, c.inner)...)
	msg := ref.EncodeRateLimitedRequest(c.requestKey, c.nameKeyID, ct, nil)
	signed := msg
	if c.signOver != nil {
		signed = c.signOver(msg)
	}
	d := sha512.Sum384(signed)
	r, s, err := stdecdsa.Sign(rand.Reader, c.signer, d[:])
	if err != nil {
		panic(err)
	}
	sig := make([]byte, 96)
	r.FillBytes(sig[:48])
	s.FillBytes(sig[48:])
	return append(msg, sig...)
}

func pad(origin string) []byte {
	n := len(origin)
	blocks := (n + 31) / 32
	if n == 0 {
		blocks = 1
	}
	out := make([]byte, 32*blocks)
	copy(out, origin)
	return out
}

func evaluate(iss *type3.RateLimitedIssuer, req []byte) (resp, key []byte, err error, panicked bool) {
	o := rt.GuardLite(func() { resp, key, err = iss.Evaluate(append([]byte{}, req...)) })
	if o.Panic != nil {
		return nil, nil, fmt.Errorf("panic: %v", o.Panic), true
	}
	return
}

// mustReject applies the oracle for a request the property requires to be refused.
func mustReject(t *rapid.T, s *rt.Sub, iss *type3.RateLimitedIssuer, req []byte, class string) {
	s.Eval()
	s.Class(class)
	s.Nontrivial(req, []byte(class))
	resp, key, err, panicked := evaluate(iss, req)
	if panicked {
		// "rejected with an error and no response": a panic is not an error return (and what lies behind the AEAD
		// cannot be reached by C03's byte mutations, so it is reported here)
		rt.Fail(t, "C07/panic/"+class, "issuer panicked (%v) on a request of class %s: %s", err, class, rt.Hex(req))
		return
	}
	if err == nil {
		rt.Fail(t, "C07/accepted/"+class, "issuer returned a token response for a request of class %s: %s", class, rt.Hex(req))
		return
	}
	if resp != nil || key != nil {
		rt.Fail(t, "C07/response-with-error/"+class, "issuer returned an error AND output bytes (class %s)", class)
	}
}

func TestIssuer(t *testing.T) {
	s := rt.S("issuer").SetRule("honest encoded requests for issuers with 1..3 registered origins (sometimes incl. the empty name), then: single-bit flips (positions stratified by field), unregistered origin variants (fresh, prefix, extension, case, NUL-padding look-alikes), request encrypted to another issuer's name key, signature by another key over the same bytes, signature stripped, bytes appended, truncation; plus requests CRAFTED with go-hpke and crypto/ecdsa directly (attacker's own signing key): valid (health), request key in the AAD differs from the wire / is missing / cut short / blank, name-key id mismatch, unregistered origin inside, signature over other bytes, signature by a key other than request_key, undecodable request key, truncated inner request. oracle: every such request => error and no output; honest and crafted-valid requests => served. non-trivial = every transformed request; distinct by (request, class)")
	rt.Check(t, 60, 16000, func(t *rapid.T) {
		defer rt.Entropy(gen.Seed().Draw(t, "entropy"))()
		sess, err := gen.NewSession(t, 3, gen.SessionOpts{RKeyIdx: -1})
		if err != nil {
			t.Fatalf("harness: %v", err)
		}
		iss := sess.Issuer3
		// the harness keeps its own record of what was registered (asking the issuer would make the oracle depend on the code under test)
		registered := map[string]bool{sess.Origin: true}
		extra := rapid.IntRange(0, 2).Draw(t, "extraOrigins")
		for i := 0; i < extra; i++ {
			o := gen.OriginName().Draw(t, "extraOrigin")
			if o != sess.Origin {
				_ = iss.AddOrigin(o)
				registered[o] = true
			}
		}
		// now and then an issuer with MANY origins (a table with a capacity would start to forget or confuse entries)
		bulk := 0
		if gen.Uniform(t, 8, "manyOrigins") == 0 {
			bulk = gen.Pick(t, []int{70, 130, 260, 520}, "bulk")
			for i := 0; i < bulk; i++ {
				o := fmt.Sprintf("bulk-%d.example", i)
				_ = iss.AddOrigin(o)
				registered[o] = true
			}
			s.Class("issuer-with-many-origins")
		}
		emptyRegistered := sess.Origin == "" || rapid.Bool().Draw(t, "registerEmpty")
		if emptyRegistered {
			_ = iss.AddOrigin("")
			registered[""] = true
		}
		honest := sess.RequestBytes
		// health
		if resp, key, err, _ := evaluate(iss, honest); err != nil || resp == nil || key == nil {
			rt.Fail(t, "C07/honest-rejected", "honest request refused: %v", err)
			return
		}
		s.Class("honest-served")
		if bulk > 0 {
			// the first, a middle and the last of the many origins are served; one beyond the last is not
			for _, i := range []int{0, bulk / 2, bulk - 1, bulk} {
				o := fmt.Sprintf("bulk-%d.example", i)
				st, err := type3.NewRateLimitedClientFromSecret(sess.ClientSecret).CreateTokenRequest(sess.Challenge, sess.Nonces[0], sess.BlindKey, sess.KeyID, iss.TokenKey(), o, iss.NameKey())
				if err != nil {
					t.Fatalf("harness: %v", err)
				}
				if i == bulk {
					if !registered[o] {
						mustReject(t, s, iss, st.Request().Marshal(), "unregistered-origin-beyond-many")
					}
				} else if _, _, err, _ := evaluate(iss, st.Request().Marshal()); err != nil {
					rt.Fail(t, "C07/honest-rejected", "issuer with %d origins refuses an honest request for registered origin %q: %v", bulk, o, err)
					return
				}
			}
		}
		ctLen := int(honest[83])<<8 | int(honest[84])
		regions := [][2]int{{0, 2}, {2, 51}, {51, 83}, {83, 85}, {85, 85 + 32}, {85 + 32, 85 + ctLen}, {85 + ctLen, len(honest)}}
		names := []string{"type", "requestkey", "namekeyid", "ctlen", "enc", "ct", "signature"}
		for i := 0; i < 14; i++ {
			ri := i % len(regions)
			pos := gen.UniformRange(t, regions[ri][0]*8, regions[ri][1]*8-1, "bit")
			b := append([]byte{}, honest...)
			b[pos/8] ^= 1 << (7 - pos%8)
			mustReject(t, s, iss, b, "bitflip-"+names[ri])
		}
		// stripped signature, appended bytes, truncations
		mustReject(t, s, iss, honest[:len(honest)-96], "signature-stripped")
		mustReject(t, s, iss, append(append([]byte{}, honest...), gen.Bytes(t, 1, 20, "tail")...), "bytes-appended")
		mustReject(t, s, iss, honest[:gen.Uniform(t, len(honest), "cut")], "truncated")

		// another issuer's name key: request honestly built for B, sent to A (same token key, same origin registered)
		issB := type3.NewRateLimitedIssuer(sess.RKey)
		_ = issB.AddOrigin(sess.Origin)
		stB, err := type3.NewRateLimitedClientFromSecret(sess.ClientSecret).CreateTokenRequest(sess.Challenge, sess.Nonces[0], sess.BlindKey, sess.KeyID, iss.TokenKey(), sess.Origin, issB.NameKey())
		if err != nil {
			t.Fatalf("harness: %v", err)
		}
		mustReject(t, s, iss, stB.Request().Marshal(), "encrypted-to-other-issuer")
		// a third issuer (same token key) that never registered this origin: a request made for IT must be refused by it,
		// whatever other issuers in the process have registered
		issC := type3.NewRateLimitedIssuer(sess.RKey)
		_ = issC.AddOrigin("only-at-c.example")
		if sess.Origin != "only-at-c.example" {
			stC, err := type3.NewRateLimitedClientFromSecret(sess.ClientSecret).CreateTokenRequest(sess.Challenge, sess.Nonces[0], sess.BlindKey, sess.KeyID, issC.TokenKey(), sess.Origin, issC.NameKey())
			if err != nil {
				t.Fatalf("harness: %v", err)
			}
			mustReject(t, s, issC, stC.Request().Marshal(), "origin-registered-only-at-another-issuer")
		}
		// a long registered name and an unregistered one sharing its first 32 / 64 bytes
		long := sess.Origin + strings.Repeat("l", 70)
		if !registered[long] {
			_ = iss.AddOrigin(long)
			registered[long] = true
		}
		for _, cut := range []int{32, 64, len(long) - 1} {
			o := long[:cut] + "-other-tail"
			if registered[o] {
				continue
			}
			st, err := type3.NewRateLimitedClientFromSecret(sess.ClientSecret).CreateTokenRequest(sess.Challenge, sess.Nonces[0], sess.BlindKey, sess.KeyID, iss.TokenKey(), o, iss.NameKey())
			if err != nil {
				t.Fatalf("harness: %v", err)
			}
			mustReject(t, s, iss, st.Request().Marshal(), "unregistered-origin-sharing-a-long-prefix")
		}

		// the same client, blind and ENTROPY for two requests that differ only in the origin name (so request key and HPKE
		// encapsulated key coincide; only the ciphertext differs): the registered one is served first, then the unregistered
		// look-alike must be refused - whatever was remembered from opening the first request
		if gen.Uniform(t, 3, "sameEntropyOtherOrigin") == 0 {
			la := gen.LookAlikes(sess.Origin)
			other := gen.Pick(t, la, "otherOrigin")
			if !registered[other] {
				seedX := gen.Seed().Draw(t, "sharedEntropy")
				mkReq := func(origin string) []byte {
					saved := rand.Reader
					rand.Reader = rt.NewDRBG(seedX)
					defer func() { rand.Reader = saved }()
					st, err := type3.NewRateLimitedClientFromSecret(sess.ClientSecret).CreateTokenRequest(sess.Challenge, sess.Nonces[0], sess.BlindKey, sess.KeyID, iss.TokenKey(), origin, iss.NameKey())
					if err != nil {
						t.Fatalf("harness: %v", err)
					}
					return append([]byte{}, st.Request().Marshal()...)
				}
				r1, r2 := mkReq(sess.Origin), mkReq(other)
				if _, _, err, _ := evaluate(iss, r1); err != nil {
					rt.Fail(t, "C07/honest-rejected", "honest request refused: %v", err)
					return
				}
				mustReject(t, s, iss, r2, "unregistered-origin-same-entropy-as-a-served-request")
				if bytes.Equal(r1[85:85+32], r2[85:85+32]) {
					s.Class("same-encapsulated-key")
				}
			}
		}
		// a registered name and an unregistered one of the same length that collide under a weak checksum (a table keyed by
		// length and CRC-32 / FNV / Adler / byte sum would take one for the other)
		for _, tw := range gen.ChecksumTwins() {
			if gen.Uniform(t, 3, "checksumTwins") != 0 {
				continue
			}
			if !registered[tw.A] {
				_ = iss.AddOrigin(tw.A)
				registered[tw.A] = true
			}
			if !registered[tw.B] {
				st, err := type3.NewRateLimitedClientFromSecret(sess.ClientSecret).CreateTokenRequest(sess.Challenge, sess.Nonces[0], sess.BlindKey, sess.KeyID, iss.TokenKey(), tw.B, iss.NameKey())
				if err != nil {
					t.Fatalf("harness: %v", err)
				}
				mustReject(t, s, iss, st.Request().Marshal(), "unregistered-origin-checksum-twin-"+tw.Hash)
			}
		}
		// unregistered origins: honest client, names that are not registered
		for i := 0; i < 3; i++ {
			var o string
			switch gen.Uniform(t, 9, "unreg") {
			case 6, 7, 8:
				// what a normalising / prefix- or suffix-matching lookup would confuse with the registered name
				if la := gen.LookAlikes(sess.Origin); len(la) > 0 {
					o = gen.Pick(t, la, "lookAlike")
				} else {
					o = sess.Origin + "y"
				}
			case 0:
				o = gen.OriginName().Draw(t, "fresh")
			case 1:
				o = sess.Origin + "x"
			case 2:
				if len(sess.Origin) > 0 {
					o = sess.Origin[:len(sess.Origin)-1]
				} else {
					o = "a"
				}
			case 3:
				o = strings.ToUpper(sess.Origin) + "."
			case 4:
				o = sess.Origin + "\x00y"
			case 5:
				o = "y" + sess.Origin
			}
			if registered[o] || (len(o) > 0 && o[len(o)-1] == 0) {
				continue
			}
			st, err := type3.NewRateLimitedClientFromSecret(sess.ClientSecret).CreateTokenRequest(sess.Challenge, sess.Nonces[0], sess.BlindKey, sess.KeyID, iss.TokenKey(), o, iss.NameKey())
			if err != nil {
				t.Fatalf("harness: %v", err)
			}
			class := "unregistered-origin"
			if rapid.Bool().Draw(t, "askForItsIndexKeyFirst") {
				// the operator's read accessors are not registrations: asking for the index key of a name that was
				// never added (and the other accessors) must not make the issuer serve it
				rt.GuardLite(func() { _ = iss.OriginIndexKey(o); _ = iss.NameKey(); _ = iss.TokenKeyID() })
				class = "unregistered-origin-after-index-key-lookup"
			}
			mustReject(t, s, iss, st.Request().Marshal(), class)
		}

		// ---- crafted requests
		nameKeyEnc := iss.NameKey().Marshal()
		nkid := sha256.Sum256(nameKeyEnc)
		signer, err := stdecdsa.GenerateKey(elliptic.P384(), rand.Reader)
		if err != nil {
			t.Fatalf("harness: %v", err)
		}
		other, _ := stdecdsa.GenerateKey(elliptic.P384(), rand.Reader)
		rk := elliptic.MarshalCompressed(elliptic.P384(), signer.X, signer.Y)
		ork := elliptic.MarshalCompressed(elliptic.P384(), other.X, other.Y)
		blindedMsg := honest2inner(sess)
		inner := ref.EncodeInnerRequest(sess.KeyID[0], blindedMsg, pad(sess.Origin))
		base := craft{nameKeyEnc: nameKeyEnc, signer: signer, requestKey: rk, aadKey: rk, nameKeyID: nkid[:], aadNameKeyID: nkid[:], inner: inner}
		// health of the crafting code: a fully valid crafted request is served
		s.Eval()
		s.Class("crafted-valid")
		if resp, _, err, _ := evaluate(iss, base.build()); err != nil || resp == nil {
			t.Fatalf("harness health: a validly crafted request is refused (%v): the crafting code does not mirror the protocol", err)
		}
		c := base
		c.aadKey = ork
		mustReject(t, s, iss, c.build(), "crafted-aad-other-request-key")
		// ... and associated data in which the request key is missing, cut short or blanked: everything else about the
		// request is valid (wire key, signature by it, registered origin), but the ciphertext is not bound to the request key
		c = base
		c.aadKey = nil
		mustReject(t, s, iss, c.build(), "crafted-aad-without-request-key")
		c = base
		c.aadKey = rk[:gen.UniformRange(t, 1, len(rk)-1, "aadcut")]
		mustReject(t, s, iss, c.build(), "crafted-aad-truncated-request-key")
		c = base
		c.aadKey = make([]byte, len(rk))
		mustReject(t, s, iss, c.build(), "crafted-aad-blank-request-key")
		c = base
		c.requestKey = ork // wire key is someone else's; signature by our key
		mustReject(t, s, iss, c.build(), "crafted-signed-by-other-than-request-key")
		c = base
		c.requestKey, c.aadKey = ork, ork // consistent AAD and wire key, but signed by another key
		mustReject(t, s, iss, c.build(), "crafted-signature-by-different-key")
		// the HONEST request's ciphertext and name key id (the issuer has just decrypted them) re-bound to the attacker's
		// request key and validly signed by the attacker: the AAD binds the ciphertext to the original request key
		{
			ct := honest[85 : 85+ctLen]
			msg := ref.EncodeRateLimitedRequest(rk, honest[51:83], ct, nil)
			d := sha512.Sum384(msg)
			r, sv, err := stdecdsa.Sign(rand.Reader, signer, d[:])
			if err != nil {
				t.Fatalf("harness: %v", err)
			}
			sig := make([]byte, 96)
			r.FillBytes(sig[:48])
			sv.FillBytes(sig[48:])
			mustReject(t, s, iss, append(msg, sig...), "honest-ciphertext-rebound-to-attacker-key")
		}
		c = base
		c.inner = ref.EncodeInnerRequest(sess.KeyID[0], blindedMsg, pad(sess.Origin+".unregistered"))
		if !registered[sess.Origin+".unregistered"] {
			mustReject(t, s, iss, c.build(), "crafted-unregistered-origin")
		}
		c = base
		c.signOver = func(m []byte) []byte { return m[:len(m)-1] }
		mustReject(t, s, iss, c.build(), "crafted-signature-over-other-bytes")
		c = base
		c.signOver = func(m []byte) []byte { return append(append([]byte{}, m[:2]...), m[51:]...) } // without the request key
		mustReject(t, s, iss, c.build(), "crafted-signature-over-other-bytes")
		c = base
		wrong := sha256.Sum256([]byte("other name key"))
		c.nameKeyID = wrong[:]
		// Not asserted: a wire issuer_encap_key_id that is not the issuer's own, while the AAD carries the real
		// one and the signature covers the wire bytes. Such a request parses, decrypts under the issuer's key,
		// names a registered origin and is validly signed - everything the property lists - and pat-go serves
		// it (it never compares the wire id). Counted as an observation only.
		s.Eval()
		if _, _, err, _ := evaluate(iss, c.build()); err == nil {
			s.Class("observed:wire-name-key-id-mismatch-served(not-asserted)")
		} else {
			s.Class("observed:wire-name-key-id-mismatch-refused(not-asserted)")
		}
		c = base
		bad := append([]byte{}, rk...)
		for i := 1; i < len(bad); i++ {
			bad[i] = 0xff
		}
		c.requestKey, c.aadKey = bad, bad
		mustReject(t, s, iss, c.build(), "crafted-undecodable-request-key")
		// plaintexts the honest client never sends (they sit behind the AEAD, byte mutation cannot reach them)
		if !registered[""] { // (a drawn extra origin may be the empty name)
			for _, n := range []int{0, 1, 32, 64, 33} {
				c = base
				c.inner = ref.EncodeInnerRequest(sess.KeyID[0], blindedMsg, make([]byte, n)) // all-zero padding = the empty origin name
				mustReject(t, s, iss, c.build(), "crafted-empty-origin-not-registered")
			}
		}
		for _, padTo := range []int{len(sess.Origin) + 1, len(sess.Origin) + 40, 4096} {
			c = base
			po := make([]byte, padTo)
			copy(po, sess.Origin+"x") // an unregistered look-alike in a padding the client would not produce
			if !registered[sess.Origin+"x"] {
				c.inner = ref.EncodeInnerRequest(sess.KeyID[0], blindedMsg, po)
				mustReject(t, s, iss, c.build(), "crafted-unregistered-origin-odd-padding")
			}
		}
		{
			// not asserted either way (the property does not list it), but it must not panic and must not return an error AND a response:
			// the registered name in a non-standard padding, an out-of-range blinded message, bytes behind the inner request
			odd := []([]byte){
				ref.EncodeInnerRequest(sess.KeyID[0], blindedMsg, append([]byte(sess.Origin), 0, 0, 0)),
				ref.EncodeInnerRequest(sess.KeyID[0], bytes.Repeat([]byte{0xff}, 256), pad(sess.Origin)),
				append(append([]byte{}, inner...), 1, 2, 3),
				ref.EncodeInnerRequest(sess.KeyID[0]^0xFF, blindedMsg, pad(sess.Origin)),
			}
			for _, in := range odd {
				c = base
				c.inner = in
				s.Eval()
				resp, key, err, panicked := evaluate(iss, c.build())
				if panicked {
					rt.Fail(t, "C07/panic/crafted-odd-inner", "issuer panicked (%v) on a validly encrypted and signed request with an unusual inner request", err)
					return
				}
				if err != nil && (resp != nil || key != nil) {
					rt.Fail(t, "C07/response-with-error/crafted-odd-inner", "issuer returned an error AND output bytes")
					return
				}
				s.Class("observed:crafted-odd-inner(not-asserted)")
			}
		}
		c = base
		c.inner = inner[:gen.UniformRange(t, 0, 258, "innercut")] // inner request does not parse
		mustReject(t, s, iss, c.build(), "crafted-truncated-inner-request")
		s.Sample(func() any {
			return map[string]any{"origin": sess.Origin, "registered_empty": emptyRegistered, "request": rt.Hex(honest)}
		})
	})
}

// honest2inner produces a fresh blinded message for the issuer's token key (what an inner request carries).
func honest2inner(sess *gen.Session) []byte {
	b := make([]byte, 256)
	rand.Read(b)
	b[0] = 0 // below every modulus in use (also the 2041..2047-bit ones)
	return b
}

// TestExhaustiveBitFlips: every bit of an honest request (thorough: several requests).
func TestExhaustiveBitFlips(t *testing.T) {
	s := rt.S("exhaustive-bitflips").SetRule("every single-bit flip of a drawn honest request (quick: every 5th bit of one request; thorough: all bits of 10 requests) must be refused; distinct by construction")
	rt.Check(t, 1, 48, func(t *rapid.T) {
		defer rt.Entropy(gen.Seed().Draw(t, "entropy"))()
		sess, err := gen.NewSession(t, 3, gen.SessionOpts{RKeyIdx: -1})
		if err != nil {
			t.Fatalf("harness: %v", err)
		}
		if _, _, err, _ := evaluate(sess.Issuer3, sess.RequestBytes); err != nil {
			rt.Fail(t, "C07/honest-rejected", "honest request refused: %v", err)
			return
		}
		step := 5
		if rt.Thorough() {
			step = 1
		}
		honest := sess.RequestBytes
		for bit := 0; bit < len(honest)*8; bit += step {
			b := append([]byte{}, honest...)
			b[bit/8] ^= 1 << (7 - bit%8)
			mustReject(t, s, sess.Issuer3, b, "bitflip")
		}
		s.MarkExhaustive(fmt.Sprintf("bit positions of a %d-byte request, step %d", len(honest), step))
	})
}

var _ = bytes.Equal
var _ = big.NewInt
