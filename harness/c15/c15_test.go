// C15 — Ed25519 key blinding yields ordinary, invertible, context-bound Ed25519 keys.
package c15

import (
	"bytes"
	stded "crypto/ed25519"
	"crypto/sha512"
	"io"
	"testing"

	pated "github.com/cloudflare/pat-go/ed25519"
	"pgregory.net/rapid"

	"verifharness/internal/gen"
	"verifharness/internal/ref"
	"verifharness/internal/rt"
)

func TestMain(m *testing.M) { rt.Main(m) }

// refBlind: public key multiplied by SHA-512(blind || 0x00 || ctx)[0:32] reduced mod L, on the math/big model.
func refBlind(pub, blind, ctx []byte) ([]byte, bool) {
	h := sha512.Sum512(append(append(append([]byte{}, blind...), 0x00), ctx...))
	r := ref.EdScalarInt(h[:32])
	p, ok := ref.EdDecode(pub)
	if !ok {
		return nil, false
	}
	return ref.EdEncode(ref.EdScalarMult(r, p)), true
}

// notAPoint: a 32-byte string that does not decode to a curve point (checked against the math/big model at init).
var notAPoint = func() []byte {
	for y := byte(2); ; y++ {
		b := make([]byte, 32)
		b[0] = y
		if _, ok := ref.EdDecode(b); !ok {
			return b
		}
	}
}()

func drawCtx(t *rapid.T, label string) []byte {
	switch gen.Uniform(t, 6, label+"/kind") {
	case 0:
		return nil
	case 1:
		return []byte{}
	case 2:
		return []byte{0}
	case 3:
		return append([]byte{0, 0}, gen.Bytes(t, 0, 8, label)...)
	case 4:
		return gen.Bytes(t, 100, 400, label+"/long")
	}
	return gen.Bytes(t, 0, 40, label)
}

func TestBlinding(t *testing.T) {
	s := rt.S("blinding").SetRule("seed, two 32-byte blinds (incl. all-zero / all-ff), context (nil, empty, 0x00, leading zeros, 100..400 bytes), message 0..200 bytes (one in six: up to 9000 bytes, around 1024/2048/4096/8192 and those minus 64); oracle: BlindPublicKeyWithContext == encode([SHA-512(blind||00||ctx)[:32] mod l] * decode(A)) on the math/big Edwards model; BlindKeySignWithContext deterministic, verifies under the blinded key with crypto/ed25519.Verify (and this package's), not under the original key; unblind inverts blind; two blindings commute; changing blind or context (one at a time) changes the key and invalidates the signature; context-free entry points equal the empty-context ones. non-trivial = every case; distinct by (seed, blind, ctx, message)")
	rt.Check(t, 400, 150000, func(t *rapid.T) {
		seed := gen.Bytes32().Draw(t, "seed")
		b1 := gen.Bytes32().Draw(t, "blind1")
		b2 := gen.Bytes32().Draw(t, "blind2")
		ctx := drawCtx(t, "ctx")
		msg := gen.Bytes(t, 0, 200, "msg")
		if gen.Uniform(t, 6, "longmsg") == 0 {
			n := gen.Pick(t, []int{960, 1023, 1024, 1984, 1985, 2000, 2047, 2048, 2049, 4032, 4033, 4095, 4096, 4097, 8128, 8192, 8193}, "longlen")
			if rapid.Bool().Draw(t, "anylong") {
				n = gen.UniformRange(t, 200, 9000, "longany")
			}
			msg = gen.Bytes(t, n, n, "longmsgBytes")
		}
		s.Eval()
		s.Nontrivial(seed, b1, ctx, msg)
		seedBuf := append([]byte{}, seed...)
		priv := pated.NewKeyFromSeed(seedBuf)
		for i := range seedBuf {
			seedBuf[i] ^= 0xFF // the caller reuses its seed buffer: the key must not alias it
		}
		pub := priv.Public().(pated.PublicKey)
		fail := func(sig, f string, a ...any) { rt.Fail(t, "C15/"+sig, f, a...) }
		// In half the cases the sequence starts with calls that FAIL (a public key that is not a curve point): an
		// error path must not leave anything behind that changes the following, valid calls.
		if rapid.Bool().Draw(t, "failingCallsFirst") {
			if _, err := pated.BlindPublicKeyWithContext(pated.PublicKey(notAPoint), append([]byte{}, b2...), ctx); err == nil {
				fail("bad-key-accepted", "BlindPublicKeyWithContext accepted a public key that is not a curve point")
				return
			}
			if rapid.Bool().Draw(t, "alsoUnblind") {
				if _, err := pated.UnblindPublicKeyWithContext(pated.PublicKey(notAPoint), append([]byte{}, b1...), ctx); err == nil {
					fail("bad-key-accepted", "UnblindPublicKeyWithContext accepted a public key that is not a curve point")
					return
				}
			}
			s.Class("after-failing-call")
		}

		bp, err := pated.BlindPublicKeyWithContext(pub, append([]byte{}, b1...), ctx)
		if err != nil {
			fail("blind-error", "BlindPublicKeyWithContext: %v", err)
			return
		}
		if len(ctx) > 0 {
			// blind and context cut from ONE record (blind = rec[:32] with the context in its spare capacity): same values, same result
			rec := append(append([]byte{}, b1...), ctx...)
			bpAdj, err := pated.BlindPublicKeyWithContext(pub, rec[:32], rec[32:])
			sigAdj := pated.BlindKeySignWithContext(priv, msg, rec[:32], rec[32:])
			upAdj, err2 := pated.UnblindPublicKeyWithContext(bp, rec[:32], rec[32:])
			if err != nil || err2 != nil || !bytes.Equal(bpAdj, bp) || !bytes.Equal(upAdj, pub) || !stded.Verify(stded.PublicKey(bp), msg, sigAdj) || !bytes.Equal(rec[32:], ctx) {
				fail("adjacent-arguments", "blind and context taken from one buffer (context in the blind's spare capacity) give a different result than separate copies of the same bytes, or the context was modified")
				return
			}
		}
		want, ok := refBlind(pub, b1, ctx)
		if !ok || !bytes.Equal(bp, want) {
			fail("blind-value", "blinded key %x, reference %x (pub %x blind %x ctx %x)", []byte(bp), want, []byte(pub), b1, ctx)
			return
		}
		if len(ctx) == 0 {
			bp0, err := pated.BlindPublicKey(pub, append([]byte{}, b1...))
			sig0 := pated.BlindKeySign(priv, msg, append([]byte{}, b1...))
			if err != nil || !bytes.Equal(bp0, bp) || !stded.Verify(stded.PublicKey(bp), msg, sig0) {
				fail("nocontext", "BlindPublicKey / BlindKeySign are not the empty-context variants")
				return
			}
		}
		sig := pated.BlindKeySignWithContext(priv, msg, append([]byte{}, b1...), ctx)
		sig2 := pated.BlindKeySignWithContext(priv, msg, append([]byte{}, b1...), ctx)
		if !bytes.Equal(sig, sig2) {
			fail("sign-nondeterministic", "two blind-key signatures over the same inputs differ")
			return
		}
		if !stded.Verify(stded.PublicKey(bp), msg, sig) {
			fail("sign-verify-std", "blind-key signature does not verify under the blinded key with crypto/ed25519 (pub %x blind %x ctx %x sig %x)", []byte(bp), b1, ctx, sig)
			return
		}
		if !pated.Verify(bp, msg, sig) {
			fail("sign-verify-fork", "blind-key signature does not verify under the blinded key with this package")
			return
		}
		if stded.Verify(stded.PublicKey(pub), msg, sig) {
			fail("sign-verifies-unblinded", "blind-key signature verifies under the ORIGINAL public key")
			return
		}
		back, err := pated.UnblindPublicKeyWithContext(bp, append([]byte{}, b1...), ctx)
		if err != nil || !bytes.Equal(back, pub) {
			fail("unblind", "Unblind(Blind(pk)) = %x, pk = %x (%v)", []byte(back), []byte(pub), err)
			return
		}
		if len(ctx) == 0 {
			back0, err := pated.UnblindPublicKey(bp, append([]byte{}, b1...))
			if err != nil || !bytes.Equal(back0, pub) {
				fail("unblind", "UnblindPublicKey is not the empty-context variant")
				return
			}
		}
		p12, e1 := pated.BlindPublicKeyWithContext(bp, append([]byte{}, b2...), ctx)
		bp2, e2 := pated.BlindPublicKeyWithContext(pub, append([]byte{}, b2...), ctx)
		if e1 != nil || e2 != nil {
			fail("blind-error", "second blinding failed: %v %v", e1, e2)
			return
		}
		p21, e3 := pated.BlindPublicKeyWithContext(bp2, append([]byte{}, b1...), ctx)
		if e3 != nil || !bytes.Equal(p12, p21) {
			fail("commute", "Blind_b2(Blind_b1(pk)) != Blind_b1(Blind_b2(pk))")
			return
		}
		if !bytes.Equal(b1, b2) {
			if bytes.Equal(bp, bp2) {
				fail("blind-unbound", "two different blinds give the same blinded key")
				return
			}
			if stded.Verify(stded.PublicKey(bp2), msg, sig) {
				fail("blind-unbound", "signature under blind1 verifies under the key blinded with blind2")
				return
			}
		}
		ctx2 := append(append([]byte{}, ctx...), gen.Bytes(t, 1, 3, "ctxsuffix")...)
		bpc, err := pated.BlindPublicKeyWithContext(pub, append([]byte{}, b1...), ctx2)
		if err != nil || bytes.Equal(bpc, bp) {
			fail("context-unbound", "contexts %x and %x give the same blinded key", ctx, ctx2)
			return
		}
		if stded.Verify(stded.PublicKey(bpc), msg, sig) {
			fail("context-unbound", "signature made with context %x verifies under the key blinded with context %x", ctx, ctx2)
			return
		}
		// a sequence of signing calls with the same key and blind under changing contexts, and with the other blind:
		// every signature must verify under the key blinded with ITS context/blind, and repeating the first call must repeat its output
		sigC2 := pated.BlindKeySignWithContext(priv, msg, append([]byte{}, b1...), ctx2)
		if !stded.Verify(stded.PublicKey(bpc), msg, sigC2) {
			fail("sign-verify-std-sequence", "signature made with context %x right after one made with context %x (same key, same blind) does not verify under the key blinded with %x", ctx2, ctx, ctx2)
			return
		}
		sigB2 := pated.BlindKeySignWithContext(priv, msg, append([]byte{}, b2...), ctx2)
		bp2c, _ := pated.BlindPublicKeyWithContext(pub, append([]byte{}, b2...), ctx2)
		if !stded.Verify(stded.PublicKey(bp2c), msg, sigB2) {
			fail("sign-verify-std-sequence", "signature made with the second blind does not verify under the key blinded with it")
			return
		}
		if again := pated.BlindKeySignWithContext(priv, msg, append([]byte{}, b1...), ctx); !bytes.Equal(again, sig) {
			fail("sign-nondeterministic", "repeating the first blind-key signature after other signing calls gives different bytes")
			return
		}
		s.Sample(func() any {
			return map[string]any{"pub": rt.Hex(pub), "blind": rt.Hex(b1), "ctx": rt.Hex(ctx), "blinded": rt.Hex(bp), "sig": rt.Hex(sig)}
		})
	})
}

// TestUnblindVolume: unblinding inverts blinding, over many (blind, context) pairs per key. The blinding factor is a hash
// output, so value-dependent faults of the inversion (a factor whose inverse has leading zero bytes: 1 pair in 256, in
// 65536, ...) cannot be aimed at; they are met by volume.
func TestUnblindVolume(t *testing.T) {
	s := rt.S("unblind-volume").SetRule("one key per case, many (blind, context) pairs: UnblindPublicKeyWithContext(BlindPublicKeyWithContext(pk)) == pk, and the blinded key equals the math/big reference for a sample of them. non-trivial = every pair; distinct by (key, blind, context)")
	perCase := 500
	rt.Check(t, 30000/perCase, 4000000/perCase, func(t *rapid.T) {
		seed := gen.Bytes32().Draw(t, "seed")
		stream := rt.NewDRBG(gen.Seed().Draw(t, "pairs"))
		pub := pated.NewKeyFromSeed(seed).Public().(pated.PublicKey)
		ctxLen := gen.Pick(t, []int{0, 0, 1, 16, 100}, "ctxLen")
		buf := make([]byte, 32+ctxLen)
		for i := 0; i < perCase; i++ {
			if _, err := io.ReadFull(stream, buf); err != nil {
				t.Fatalf("harness: %v", err)
			}
			blind, ctx := append([]byte{}, buf[:32]...), append([]byte{}, buf[32:]...)
			bp, err := pated.BlindPublicKeyWithContext(pub, blind, ctx)
			if err != nil {
				rt.Fail(t, "C15/blind-error", "BlindPublicKeyWithContext: %v", err)
				return
			}
			back, err := pated.UnblindPublicKeyWithContext(bp, blind, ctx)
			if err != nil || !bytes.Equal(back, pub) {
				rt.Fail(t, "C15/unblind", "Unblind(Blind(pk)) = %x, pk = %x (%v); blind %x ctx %x", []byte(back), []byte(pub), err, blind, ctx)
				return
			}
			if i%100 == 0 {
				if want, ok := refBlind(pub, blind, ctx); !ok || !bytes.Equal(bp, want) {
					rt.Fail(t, "C15/blind-value", "blinded key %x, reference %x (pub %x blind %x ctx %x)", []byte(bp), want, []byte(pub), blind, ctx)
					return
				}
			}
			s.Eval()
		}
		s.NontrivialEnum(int64(perCase))
		s.Sample(func() any { return map[string]any{"pub": rt.Hex(pub), "pairs": perCase, "ctx_len": ctxLen} })
	})
}
