package c12

import (
	"testing"

	"verifharness/internal/rt"
)

// The rapid properties of this package under the native, coverage-guided fuzzer (thorough tier): the fuzzer's
// byte string is the stream the property draws from (rt.FuzzProp), so generators, oracle and failure
// signatures are exactly those of the named test.

func FuzzPropP224(f *testing.F) { rt.FuzzProp(f, rt.Capture(TestP224)) }
func FuzzPropP256(f *testing.F) { rt.FuzzProp(f, rt.Capture(TestP256)) }
func FuzzPropP384(f *testing.F) { rt.FuzzProp(f, rt.Capture(TestP384)) }
func FuzzPropP521(f *testing.F) { rt.FuzzProp(f, rt.Capture(TestP521)) }
