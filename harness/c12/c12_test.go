// C12 — ECDSA key blinding is consistent, invertible, commutative and context-bound.
package c12

import (
	stdecdsa "crypto/ecdsa"
	"crypto/elliptic"
	"errors"
	"fmt"
	"io"
	"math/big"
	"testing"

	patecdsa "github.com/cloudflare/pat-go/ecdsa"
	"pgregory.net/rapid"

	"verifharness/internal/gen"
	"verifharness/internal/ref"
	"verifharness/internal/rt"
)

func TestMain(m *testing.M) { rt.Main(m) }

// scalarBytes draws d in [1, N) as minimal big-endian bytes.
func scalarBytes(t *rapid.T, c elliptic.Curve, label string) []byte {
	n := c.Params().N
	raw := rapid.SliceOfN(rapid.Byte(), 80, 80).Draw(t, label)
	v := new(big.Int).SetBytes(raw)
	switch gen.Uniform(t, 12, label+"/kind") {
	case 0:
		v.SetInt64(1)
	case 1:
		v.Sub(n, big.NewInt(1))
	case 2:
		v.SetInt64(int64(gen.UniformRange(t, 1, 70000, label+"/small")))
	default:
		v.Mod(v, new(big.Int).Sub(n, big.NewInt(1)))
		v.Add(v, big.NewInt(1))
	}
	return v.Bytes()
}

// blindBytes draws the byte string a caller passes as blind key: incl. leading zeros, values >= N, 0, 1, N-1.
func blindBytes(t *rapid.T, c elliptic.Curve, label string) []byte {
	n := c.Params().N
	switch gen.Uniform(t, 10, label+"/kind") {
	case 0:
		return append(make([]byte, gen.UniformRange(t, 1, 3, label+"/zeros")), scalarBytes(t, c, label)...) // leading zeros
	case 1:
		return new(big.Int).Add(n, big.NewInt(int64(gen.UniformRange(t, 0, 1000, label+"/over")))).Bytes() // >= N
	case 2:
		return gen.Bytes(t, 70, 90, label+"/long") // far above N
	case 3:
		return gen.Pick(t, [][]byte{{}, {0}, {1}, new(big.Int).Sub(n, big.NewInt(1)).Bytes(), n.Bytes()}, label+"/special")
	}
	return scalarBytes(t, c, label)
}

func context(t *rapid.T, label string) []byte {
	switch gen.Uniform(t, 6, label+"/kind") {
	case 0:
		return nil
	case 1:
		return []byte{}
	case 2:
		return []byte{0x00}
	case 3:
		return append([]byte{0x00, 0x05}, gen.Bytes(t, 0, 10, label)...)
	case 4:
		return gen.Bytes(t, 200, 600, label+"/long")
	}
	return gen.Bytes(t, 0, 40, label)
}

func key(t *rapid.T, c elliptic.Curve, b []byte) *patecdsa.PrivateKey {
	buf := append([]byte{}, b...)
	k, err := patecdsa.CreateKey(c, buf)
	if err != nil {
		t.Fatalf("CreateKey: %v", err)
	}
	// the caller reuses its buffer: a key must not depend on memory the caller still owns
	for i := range buf {
		buf[i] ^= 0xFF
	}
	return k
}

// failingReader hands out a few bytes and then fails.
type failingReader struct {
	src  io.Reader
	left int
}

func (f *failingReader) Read(p []byte) (int, error) {
	if f.left <= 0 {
		return 0, errors.New("entropy source failed")
	}
	if len(p) > f.left {
		p = p[:f.left]
	}
	n, err := f.src.Read(p)
	f.left -= n
	return n, err
}

func samePoint(a *patecdsa.PublicKey, x, y *big.Int) bool { return a.X.Cmp(x) == 0 && a.Y.Cmp(y) == 0 }

func run(t *testing.T, c elliptic.Curve) {
	name := c.Params().Name
	s := rt.S(name).SetRule("signing key d in [1,N), blind key bytes (incl. leading zeros, >= N, empty/0/1/N-1, 70..90 random bytes), contexts (nil, empty, 0x00, containing 0x00, 200..600 bytes), digests of length 0..128, second blind; oracle: blinded public key == [r]pk with r = hash_to_field(XMD, curve hash, DST 'ECDSA Key Blind', L) of minimal-BE(blind) || 0x00 || ctx recomputed by the harness (RFC 9380 from scratch, self-tested) on crypto/elliptic; blind-key signature verifies under the blinded key with this package AND crypto/ecdsa, not under the unblinded key; unblind inverts; two blindings commute; changing blind (ctx fixed) or ctx (blind fixed) changes the key. non-trivial = every case; distinct by (d, blind, ctx, digest)")
	rt.Check(t, 150, 30000, func(t *rapid.T) {
		dB := scalarBytes(t, c, "d")
		if gen.Uniform(t, 6, "oversizeSigningKey") == 0 {
			// a signing key given as an encoding longer than the curve's scalar size (value >= 2^(8*size)); CreateKey takes any byte string
			dB = append(gen.Bytes(t, 1, 12, "dPrefix"), dB...)
			if dB[0] == 0 {
				dB[0] = 1
			}
		}
		sk := key(t, c, dB)
		b1, b2 := blindBytes(t, c, "blind1"), blindBytes(t, c, "blind2")
		ctx := context(t, "ctx")
		digest := gen.Digest(t, "digest")
		switch gen.Uniform(t, 8, "secondBlindRelated") {
		case 0:
			b2 = append(append([]byte{}, b1...), 0) // b1 * 256
		case 1:
			b2 = new(big.Int).Add(new(big.Int).SetBytes(b1), c.Params().N).Bytes() // b1 + N
		}
		bk1, bk2 := key(t, c, b1), key(t, c, b2)
		if gen.Uniform(t, 5, "blindKeyObjectOfAnotherCurve") == 0 {
			// the blind is a scalar in a key OBJECT; the curve of the operation is the curve ARGUMENT. An object made by
			// CreateKey for another curve carries the same scalar and must give the same results.
			others := []elliptic.Curve{elliptic.P224(), elliptic.P256(), elliptic.P384(), elliptic.P521()}
			oc := gen.Pick(t, others, "otherCurve")
			bk1, bk2 = key(t, oc, b1), key(t, oc, b2)
			s.Class("blind-key-object-of-another-curve")
		}
		D1, D2 := new(big.Int).SetBytes(b1), new(big.Int).SetBytes(b2)
		s.Eval()
		s.Nontrivial([]byte(name), dB, b1, ctx, digest)
		n := c.Params().N
		if ref.ECDSABlindScalar(c, D1, ctx).Sign() == 0 || ref.ECDSABlindScalar(c, D2, ctx).Sign() == 0 {
			t.Skip("blinding factor zero (probability 2^-n)")
		}
		_ = n
		fail := func(sig, f string, a ...any) { rt.Fail(t, "C12/"+name+"/"+sig, f, a...) }

		// 1. blinded public key against the reference
		bpk, err := patecdsa.BlindPublicKeyWithContext(c, &sk.PublicKey, bk1, ctx)
		if err != nil {
			fail("blind-error", "BlindPublicKeyWithContext: %v", err)
			return
		}
		wx, wy := ref.ECDSABlindPublicKey(c, sk.X, sk.Y, D1, ctx)
		if !samePoint(bpk, wx, wy) {
			fail("blind-value", "blinded key (%x,%x) differs from the reference [hash_to_field(blind||00||ctx)]pk = (%x,%x); blind %x ctx %x", bpk.X, bpk.Y, wx, wy, b1, ctx)
			return
		}
		if ctx == nil || len(ctx) == 0 {
			// the context-free entry points are the empty-context ones
			p2, err := patecdsa.BlindPublicKey(c, &sk.PublicKey, bk1)
			if err != nil || !samePoint(p2, wx, wy) {
				fail("blind-nocontext", "BlindPublicKey differs from BlindPublicKeyWithContext(empty)")
				return
			}
		}
		// 1b. in a third of the cases a signing call whose entropy source FAILS comes first: whatever it returns, it must
		// leave the caller's key objects as they were (the following steps use them)
		if gen.Uniform(t, 3, "failingEntropyFirst") == 0 {
			dBefore, bBefore := new(big.Int).Set(sk.D), new(big.Int).Set(bk1.D)
			xBefore, yBefore := new(big.Int).Set(sk.X), new(big.Int).Set(sk.Y)
			limit := gen.Pick(t, []int{0, 1, 8, 31, 47}, "entropyBytesBeforeFailure")
			var ferr error
			o := rt.GuardLite(func() {
				_, _, ferr = patecdsa.BlindKeySignWithContext(&failingReader{src: rt.NewDRBG([]byte{byte(limit)}), left: limit}, sk, bk1, digest, ctx)
			})
			if o.Panic != nil {
				fail("entropy-fault-panic", "BlindKeySignWithContext panicked when its entropy source failed after %d bytes: %v", limit, o.Panic)
				return
			}
			if sk.D.Cmp(dBefore) != 0 || bk1.D.Cmp(bBefore) != 0 || sk.X.Cmp(xBefore) != 0 || sk.Y.Cmp(yBefore) != 0 {
				fail("entropy-fault-key-changed", "after a blind signing call whose entropy source failed (err=%v) the caller's signing key or blind key object holds another value than before", ferr)
				return
			}
			s.Class("after-entropy-fault")
		}
		// 2. signature with the blinded signing key
		r, sv, err := patecdsa.BlindKeySignWithContext(rt.NewDRBG(gen.Seed().Draw(t, "entropy")), sk, bk1, digest, ctx)
		if err != nil {
			fail("sign-error", "BlindKeySignWithContext: %v", err)
			return
		}
		if !patecdsa.Verify(bpk, digest, r, sv) {
			fail("sign-verify-fork", "blind-key signature does not verify under the blinded public key with this package's verifier")
			return
		}
		if !stdecdsa.Verify(&stdecdsa.PublicKey{Curve: c, X: bpk.X, Y: bpk.Y}, digest, r, sv) {
			fail("sign-verify-std", "blind-key signature does not verify under the blinded public key with crypto/ecdsa")
			return
		}
		if patecdsa.Verify(&sk.PublicKey, digest, r, sv) || stdecdsa.Verify(&stdecdsa.PublicKey{Curve: c, X: sk.X, Y: sk.Y}, digest, r, sv) {
			fail("sign-verifies-unblinded", "blind-key signature verifies under the UNBLINDED public key")
			return
		}
		// 2b. right afterwards the NEGATED signing key N-d (same X, other Y) with the same blind and context: its own blinded
		// key, its own signature (anything remembered per public key must look at the whole key)
		if gen.Uniform(t, 3, "negatedSignerNext") == 0 {
			dNeg := new(big.Int).Sub(c.Params().N, new(big.Int).Mod(sk.D, c.Params().N))
			if dNeg.Sign() > 0 && dNeg.Cmp(c.Params().N) < 0 {
				skNeg := key(t, c, dNeg.Bytes())
				bpkNeg, err := patecdsa.BlindPublicKeyWithContext(c, &skNeg.PublicKey, bk1, ctx)
				nx, ny := ref.ECDSABlindPublicKey(c, skNeg.X, skNeg.Y, D1, ctx)
				if err != nil || !samePoint(bpkNeg, nx, ny) {
					fail("blind-value", "blinded key of the negated signing key differs from the reference (%v)", err)
					return
				}
				rn, sn, err := patecdsa.BlindKeySignWithContext(rt.NewDRBG(gen.Seed().Draw(t, "entropyNeg")), skNeg, bk1, digest, ctx)
				if err != nil || !stdecdsa.Verify(&stdecdsa.PublicKey{Curve: c, X: nx, Y: ny}, digest, rn, sn) {
					fail("sign-verify-std", "blind-key signature by the negated signing key N-d, made right after one by d with the same blind and context, does not verify under ITS blinded public key (%v)", err)
					return
				}
				backNeg, err := patecdsa.UnblindPublicKeyWithContext(c, bpkNeg, bk1, ctx)
				if err != nil || !samePoint(backNeg, skNeg.X, skNeg.Y) {
					fail("unblind", "Unblind(Blind(-pk)) != -pk right after the same operations on pk (%v)", err)
					return
				}
				s.Class("negated-signer-next")
			}
		}
		// 3. unblinding inverts blinding
		back, err := patecdsa.UnblindPublicKeyWithContext(c, bpk, bk1, ctx)
		if err != nil || !samePoint(back, sk.X, sk.Y) {
			fail("unblind", "Unblind(Blind(pk)) != pk (%v)", err)
			return
		}
		// 4. two blindings commute
		p12, e1 := patecdsa.BlindPublicKeyWithContext(c, bpk, bk2, ctx)
		bpk2, e2 := patecdsa.BlindPublicKeyWithContext(c, &sk.PublicKey, bk2, ctx)
		if e1 != nil || e2 != nil {
			fail("blind-error", "second blinding failed: %v %v", e1, e2)
			return
		}
		p21, e3 := patecdsa.BlindPublicKeyWithContext(c, bpk2, bk1, ctx)
		if e3 != nil || !samePoint(p12, p21.X, p21.Y) {
			fail("commute", "Blind_b2(Blind_b1(pk)) != Blind_b1(Blind_b2(pk))")
			return
		}
		// 5. context- and blind-bound, one at a time
		if D1.Cmp(D2) != 0 && samePoint(bpk, bpk2.X, bpk2.Y) {
			fail("blind-unbound", "two different blinds (%x, %x) give the same blinded key under one context", b1, b2)
			return
		}
		ctx2 := append(append([]byte{}, ctx...), gen.Bytes(t, 1, 4, "ctxsuffix")...)
		if rapid.Bool().Draw(t, "flipctx") && len(ctx) > 0 {
			ctx2 = append([]byte{}, ctx...)
			ctx2[gen.Uniform(t, len(ctx2), "ctxpos")] ^= 0x01
		}
		bpkc, err := patecdsa.BlindPublicKeyWithContext(c, &sk.PublicKey, bk1, ctx2)
		if err != nil || samePoint(bpkc, bpk.X, bpk.Y) {
			fail("context-unbound", "contexts %x and %x give the same blinded key (%v)", ctx, ctx2, err)
			return
		}
		// a signature made under one context must not verify under the other context's key
		if patecdsa.Verify(bpkc, digest, r, sv) {
			fail("context-unbound", "signature made with context %x verifies under the key blinded with context %x", ctx, ctx2)
			return
		}
		s.Sample(func() any {
			return map[string]any{"curve": name, "d": rt.Hex(dB), "blind": rt.Hex(b1), "ctx": rt.Hex(ctx), "digest_len": len(digest), "blinded_x": fmt.Sprintf("%x", bpk.X)}
		})
	})
}

func TestP224(t *testing.T) { run(t, elliptic.P224()) }
func TestP256(t *testing.T) { run(t, elliptic.P256()) }
func TestP384(t *testing.T) { run(t, elliptic.P384()) }
func TestP521(t *testing.T) { run(t, elliptic.P521()) }
