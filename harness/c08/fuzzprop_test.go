package c08

import (
	"testing"

	"verifharness/internal/rt"
)

// The rapid properties of this package under the native, coverage-guided fuzzer (thorough tier): the fuzzer's
// byte string is the stream the property draws from (rt.FuzzProp), so generators, oracle and failure
// signatures are exactly those of the named test.

func FuzzPropIndexStability(f *testing.F)   { rt.FuzzProp(f, rt.Capture(TestIndexStability)) }
func FuzzPropLookAlikeOrigins(f *testing.F) { rt.FuzzProp(f, rt.Capture(TestLookAlikeOrigins)) }
