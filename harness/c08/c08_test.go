// C08 — the anonymous issuer origin ID is stable per client and origin, and nothing else.
package c08

import (
	"bytes"
	"crypto/elliptic"
	"fmt"
	"io"
	"math/big"
	"strings"
	"testing"

	patecdsa "github.com/cloudflare/pat-go/ecdsa"
	"github.com/cloudflare/pat-go/tokens/type3"
	"pgregory.net/rapid"

	"verifharness/internal/gen"
	"verifharness/internal/ref"
	"verifharness/internal/rt"
)

func TestMain(m *testing.M) { rt.Main(m) }

type memCache struct{ m map[string]*type3.ClientState }

func (c *memCache) Get(id string) (*type3.ClientState, bool) { s, ok := c.m[id]; return s, ok }
func (c *memCache) Put(id string, s *type3.ClientState)      { c.m[id] = s }

func TestIndexStability(t *testing.T) {
	s := rt.S("index").SetRule("two clients (secrets incl. small scalars), two origins with distinct index keys and a third sharing the first's key; for each (client, origin) a sequence of 2..4 complete runs CreateTokenRequest -> VerifyRequest -> issuer.Evaluate -> FinalizeIndex with independently drawn blinds, nonces, challenges; oracle: every returned ID equals HKDF-SHA-384(salt=client key, ikm=client key blinded by the origin's index key [harness hash-to-field on crypto/elliptic], info=IssuerOriginAlias) written over crypto/hmac; identical across the sequence; distinct between clients and between distinct index keys; equal for origins sharing an index key; Evaluate's second result equals the request key blinded by the index key. non-trivial = every sequence; distinct by (client key, index key, blinds)")
	rt.Check(t, 64, 6400, func(t *rapid.T) {
		defer rt.Entropy(gen.Seed().Draw(t, "entropy"))()
		rsaIdx := gen.RSAKey().Draw(t, "rsakey")
		iss := type3.NewRateLimitedIssuer(gen.RSAPool()[rsaIdx])
		idxA := gen.P384KeyBytes().Draw(t, "indexKeyA")
		idxB := gen.P384KeyBytes().Draw(t, "indexKeyB")
		if gen.Uniform(t, 5, "indexKeysRelated") == 0 {
			// two DIFFERENT index keys that are byte-shifts or residues of one another: k and k*256 (k short), k and k + N
			nOrd := elliptic.P384().Params().N
			switch gen.Uniform(t, 3, "relation") {
			case 0:
				idxA = gen.Bytes(t, 40, 46, "shortIndexKey")
				idxA[0] |= 1
				idxB = append(append([]byte{}, idxA...), 0)
			case 1:
				idxB = append(append([]byte{}, idxA...), 0, 0)
				idxB = new(big.Int).Mod(new(big.Int).SetBytes(idxB), nOrd).Bytes()
			case 2:
				idxB = new(big.Int).Sub(nOrd, new(big.Int).SetBytes(idxA)).Bytes() // the negated key: same X, other Y
			}
			s.Class("index-keys-related")
		}
		if bytes.Equal(idxA, idxB) || len(idxB) == 0 {
			t.Skip("equal index keys")
		}
		mkKey := func(b []byte) *patecdsa.PrivateKey {
			k, err := patecdsa.CreateKey(elliptic.P384(), b)
			if err != nil {
				t.Fatalf("harness: %v", err)
			}
			return k
		}
		origins := []string{"a.example", "b.example", "shares-key-with-a.example"}
		// the two origins with DIFFERENT index keys may be look-alikes: whatever normalisation, truncation or prefix
		// matching happened to a name on its way to the index key shows as the wrong blinded request key / ID
		nameKind := gen.Uniform(t, 11, "names")
		switch nameKind {
		case 1:
			origins[1] = origins[0] + "\x00eu" // embedded NUL, the part before it is registered too
		case 2:
			origins[1] = origins[0] + "."
		case 3:
			origins[1] = strings.ToUpper(origins[0])
		case 4:
			origins[0] = strings.Repeat("a", 22) + ".example" // exactly one 32-byte block
			origins[1] = origins[0] + "x"
		case 5:
			o := gen.OriginName().Draw(t, "drawnName")
			// (a name ENDING in a zero byte cannot be told from its padding - that is the wire format, not a defect)
			if len(o) > 1 && o[len(o)-1] != 0 && o[len(o)-2] != 0 && o != origins[2] && o[:len(o)-1] != origins[2] {
				origins[0], origins[1] = o, o[:len(o)-1]
			}
		case 6:
			origins[1] = " " + origins[0]
		case 10:
			tw := gen.Pick(t, gen.ChecksumTwins(), "twin")
			origins[0], origins[1] = tw.A, tw.B
		case 7, 8, 9:
			la := gen.LookAlikes(origins[0])
			origins[1] = gen.Pick(t, la, "lookAlike")
			if origins[1] == origins[2] {
				origins[1] = "b.example"
			}
		}
		s.Class([]string{"names:plain", "names:embedded-NUL-extension", "names:trailing-dot", "names:upper-case", "names:block-boundary", "names:drawn-and-its-prefix", "names:leading-space", "names:look-alike", "names:look-alike", "names:look-alike", "names:checksum-twins"}[nameKind])
		_ = iss.AddOriginWithIndexKey(origins[0], mkKey(idxA))
		_ = iss.AddOriginWithIndexKey(origins[1], mkKey(idxB))
		_ = iss.AddOriginWithIndexKey(origins[2], mkKey(idxA))
		indexKeyOf := map[string][]byte{origins[0]: idxA, origins[1]: idxB, origins[2]: idxA}
		if rapid.Bool().Draw(t, "generatedIndexKey") {
			// also an origin whose index key the issuer generated itself
			origins = append(origins, "generated.example")
			_ = iss.AddOrigin("generated.example")
			indexKeyOf["generated.example"] = iss.OriginIndexKey("generated.example").D.Bytes()
		}
		secrets := [][]byte{gen.P384KeyBytes().Draw(t, "client1"), gen.P384KeyBytes().Draw(t, "client2")}
		if bytes.Equal(secrets[0], secrets[1]) {
			t.Skip("equal clients")
		}
		att := type3.NewRateLimitedAttester(&memCache{m: map[string]*type3.ClientState{}})
		ids := map[string][]byte{} // client|origin -> id (the slice as returned)
		wantIDs := map[string][]byte{}
		// anonymous origin IDs: either one per (client, origin) or ONE per client reused for all its origins
		// (the attester allows one anonymous origin ID to map to several issuer origin IDs, not the converse)
		anonPerClient := rapid.Bool().Draw(t, "anonPerClient")
		// interleaved: all requests are created and verified first, then evaluated and finalized in a drawn order
		interleaved := rapid.Bool().Draw(t, "interleaved")
		type pending struct {
			ci          int
			origin      string
			st          type3.RateLimitedTokenRequestState
			blind, anon []byte
		}
		var queue []pending
		finish := func(p pending) bool {
			clientKey := p.st.ClientKey()
			_, blindedReqKey, err := iss.Evaluate(p.st.Request().Marshal())
			if err != nil {
				rt.Fail(t, "C08/evaluate", "issuer refused an honest request: %v", err)
				return false
			}
			s.Eval()
			idxKey := new(big.Int).SetBytes(indexKeyOf[p.origin])
			if want := ref.BlindCompressed(p.st.Request().RequestKey, idxKey, ref.IssuerBlindCtx); !bytes.Equal(blindedReqKey, want) {
				rt.Fail(t, "C08/blinded-request-key", "Evaluate's second result %x is not the request key blinded by the origin index key (%x)", blindedReqKey, want)
				return false
			}
			fargs := [][]byte{append([]byte{}, clientKey...), append([]byte{}, p.blind...), append([]byte{}, blindedReqKey...), append([]byte{}, p.anon...)}
			id, err := att.FinalizeIndex(fargs[0], fargs[1], fargs[2], fargs[3])
			// (the returned slice itself is kept, not a copy: an ID handed out earlier must keep its value across later calls)
			for _, b := range fargs {
				for i := range b {
					b[i] = 0x5A
				}
			}
			if err != nil {
				rt.Fail(t, "C08/finalize-index", "FinalizeIndex failed on an honest run: %v", err)
				return false
			}
			if want := ref.AnonymousIssuerOriginID(clientKey, idxKey); !bytes.Equal(id, want) {
				rt.Fail(t, "C08/value", "anonymous issuer origin ID %x, reference HKDF value %x (client %x, origin %s, anonPerClient=%v interleaved=%v)", id, want, clientKey, p.origin, anonPerClient, interleaved)
				return false
			}
			key := fmt.Sprintf("%d|%s", p.ci, p.origin)
			if first, ok := ids[key]; ok && !bytes.Equal(first, id) {
				rt.Fail(t, "C08/unstable", "ID changed between two requests of one client for one origin: %x vs %x", first, id)
				return false
			}
			ids[key] = id
			wantIDs[key] = ref.AnonymousIssuerOriginID(clientKey, idxKey)
			s.Nontrivial(clientKey, indexKeyOf[p.origin], p.blind)
			return true
		}
		for ci, secret := range secrets {
			client := type3.NewRateLimitedClientFromSecret(secret)
			var prevBlind []byte
			for oi, origin := range origins {
				runs := rapid.IntRange(2, 4).Draw(t, "runs")
				for r := 0; r < runs; r++ {
					blind := gen.P384KeyBytes().Draw(t, "blind")
					switch gen.Uniform(t, 8, "oddBlind") {
					case 0: // a blind whose value is >= N (the API takes any byte string)
						blind = new(big.Int).Add(elliptic.P384().Params().N, big.NewInt(int64(gen.Uniform(t, 70000, "over")))).Bytes()
					case 1:
						blind = bytes.Repeat([]byte{0xff}, 48)
					case 2:
						blind = append([]byte{1}, gen.Bytes(t, 55, 55, "wideBlind")...)
					case 3:
						// the previous blind of this client plus the group order: another blind, the same residue mod N
						if prevBlind != nil {
							blind = new(big.Int).Add(new(big.Int).SetBytes(prevBlind), elliptic.P384().Params().N).Bytes()
						}
					}
					prevBlind = blind
					chal, nonce := gen.Challenge().Draw(t, "challenge"), gen.Bytes32().Draw(t, "nonce")
					st, err := client.CreateTokenRequest(chal, nonce, blind, iss.TokenKeyID(), iss.TokenKey(), origin, iss.NameKey())
					if err != nil {
						t.Fatalf("harness: %v", err)
					}
					anon := []byte(fmt.Sprintf("anon-origin-%d-%d", ci, oi))
					if oi == 2 {
						anon = []byte(fmt.Sprintf("anon-origin-%d-%d", ci, 0)) // shares the index with origin 0: must present the same anon ID
					}
					if anonPerClient {
						anon = []byte(fmt.Sprintf("anon-origin-of-client-%d", ci))
					}
					vargs := [][]byte{append([]byte{}, blind...), append([]byte{}, st.ClientKey()...), append([]byte{}, anon...)}
					verr := att.VerifyRequest(*st.Request(), vargs[0], vargs[1], vargs[2])
					for _, b := range vargs {
						for i := range b {
							b[i] = 0x5A // the caller reuses the buffers it passed to the attester
						}
					}
					if err := verr; err != nil {
						rt.Fail(t, "C08/verify", "honest request rejected by the attester: %v", err)
						return
					}
					p := pending{ci, origin, st, blind, anon}
					if interleaved {
						queue = append(queue, p)
					} else if !finish(p) {
						return
					}
				}
			}
		}
		if interleaved {
			for _, i := range rapid.Permutation(seq(len(queue))).Draw(t, "finishOrder") {
				if !finish(queue[i]) {
					return
				}
			}
			s.Class("interleaved")
		}
		if anonPerClient {
			s.Class("anon-id-shared-across-origins")
		}
		// the same client key presented in another encoding (uncompressed SEC1): the attester refuses it, or it is the
		// same client and gets the same ID ("depends only on the client's public key")
		{
			client := type3.NewRateLimitedClientFromSecret(secrets[0])
			blind := gen.P384KeyBytes().Draw(t, "blindU")
			st, err := client.CreateTokenRequest(gen.Challenge().Draw(t, "challengeU"), gen.Bytes32().Draw(t, "nonceU"), blind, iss.TokenKeyID(), iss.TokenKey(), origins[0], iss.NameKey())
			if err != nil {
				t.Fatalf("harness: %v", err)
			}
			cx, cy := elliptic.UnmarshalCompressed(elliptic.P384(), st.ClientKey())
			unc := elliptic.Marshal(elliptic.P384(), cx, cy)
			anon := []byte("anon-origin-0-0")
			if anonPerClient {
				anon = []byte("anon-origin-of-client-0")
			}
			var verr error
			o := rt.GuardLite(func() {
				verr = att.VerifyRequest(*st.Request(), append([]byte{}, blind...), append([]byte{}, unc...), append([]byte{}, anon...))
			})
			if o.Panic == nil && verr == nil {
				s.Class("uncompressed-client-key-accepted")
				if _, blindedReqKey, err := iss.Evaluate(st.Request().Marshal()); err == nil {
					var id []byte
					var ferr error
					o := rt.GuardLite(func() {
						id, ferr = att.FinalizeIndex(append([]byte{}, unc...), append([]byte{}, blind...), blindedReqKey, append([]byte{}, anon...))
					})
					if o.Panic == nil && ferr == nil && !bytes.Equal(id, wantIDs["0|"+origins[0]]) {
						rt.Fail(t, "C08/unstable-across-key-encodings", "the attester accepted the client's key in uncompressed form and derived ID %x for it; the same client key in compressed form has ID %x for the same origin", id, wantIDs["0|"+origins[0]])
						return
					}
				}
			} else {
				s.Class("uncompressed-client-key-refused")
			}
		}
		for key, id := range ids {
			if want := wantIDs[key]; !bytes.Equal(id, want) {
				rt.Fail(t, "C08/returned-id-changed", "the ID returned for %s no longer has the value it had when it was returned (now %x, was %x): later calls overwrote it", key, id, want)
				return
			}
		}
		for ci := range secrets {
			if !bytes.Equal(ids[fmt.Sprintf("%d|%s", ci, origins[0])], ids[fmt.Sprintf("%d|%s", ci, origins[2])]) {
				rt.Fail(t, "C08/shared-key-differs", "origins sharing an index key give different IDs for one client")
				return
			}
			if bytes.Equal(ids[fmt.Sprintf("%d|%s", ci, origins[0])], ids[fmt.Sprintf("%d|%s", ci, origins[1])]) {
				rt.Fail(t, "C08/not-distinct", "origins with distinct index keys give the same ID")
				return
			}
		}
		for _, o := range origins {
			if bytes.Equal(ids["0|"+o], ids["1|"+o]) {
				rt.Fail(t, "C08/not-distinct", "two clients get the same ID for origin %s", o)
				return
			}
		}
		s.Sample(func() any {
			return map[string]any{"client_secret": rt.Hex(secrets[0]), "index_key": rt.Hex(idxA), "id": rt.Hex(ids["0|a.example"])}
		})
	})
}

func seq(n int) []int {
	out := make([]int, n)
	for i := range out {
		out[i] = i
	}
	return out
}

// TestLookAlikeOrigins: ONE issuer knows a name, all its look-alikes (gen.LookAlikes: case, dots, ports, scheme, labels,
// white space, ...) and the weak-checksum twins, each registered with its OWN index key (in a drawn order); one honest
// request per name. The issuer's second result must be the request key blinded by the index key registered for exactly
// that name, and the attester's ID the reference value for it - so two names never share a key, and IDs are distinct.
func TestLookAlikeOrigins(t *testing.T) {
	s := rt.S("look-alike-origins").SetRule("per case a base name (fixed host name, or drawn), its ~35 look-alikes and 7 checksum-twin pairs, each registered with its own drawn index key in a drawn order; per name one complete run (CreateTokenRequest, VerifyRequest, Evaluate, FinalizeIndex): blinded request key == request key blinded by THAT name's index key, ID == reference HKDF value; all IDs distinct. non-trivial = every name; distinct by (name, index key)")
	rt.Check(t, 3, 480, func(t *rapid.T) {
		defer rt.Entropy(gen.Seed().Draw(t, "entropy"))()
		iss := type3.NewRateLimitedIssuer(gen.RSAPool()[gen.RSAKey().Draw(t, "rsakey")])
		base := "shop.example"
		if rapid.Bool().Draw(t, "drawnBase") {
			if o := gen.OriginName().Draw(t, "base"); len(o) > 0 && o[len(o)-1] != 0 {
				base = o
			}
		}
		names := append([]string{base}, gen.LookAlikes(base)...)
		for _, tw := range gen.ChecksumTwins() {
			names = append(names, tw.A, tw.B)
		}
		seen := map[string]bool{}
		var uniq []string
		for _, n := range names {
			if !seen[n] {
				seen[n] = true
				uniq = append(uniq, n)
			}
		}
		idx := map[string]*big.Int{}
		stream := rt.NewDRBG(gen.Seed().Draw(t, "indexKeys"))
		nOrd := elliptic.P384().Params().N
		for _, i := range rapid.Permutation(seq(len(uniq))).Draw(t, "registrationOrder") {
			b := make([]byte, 56)
			if _, err := io.ReadFull(stream, b); err != nil {
				t.Fatalf("harness: %v", err)
			}
			d := new(big.Int).SetBytes(b)
			d.Mod(d, new(big.Int).Sub(nOrd, big.NewInt(1))).Add(d, big.NewInt(1))
			k, err := patecdsa.CreateKey(elliptic.P384(), d.Bytes())
			if err != nil {
				t.Fatalf("harness: %v", err)
			}
			_ = iss.AddOriginWithIndexKey(uniq[i], k)
			idx[uniq[i]] = d
		}
		secret := gen.P384KeyBytes().Draw(t, "client")
		client := type3.NewRateLimitedClientFromSecret(secret)
		att := type3.NewRateLimitedAttester(&memCache{m: map[string]*type3.ClientState{}})
		ids := map[string]string{}
		for ni, name := range uniq {
			blind := gen.P384KeyBytes().Draw(t, "blind")
			st, err := client.CreateTokenRequest(gen.Challenge().Draw(t, "challenge"), gen.Bytes32().Draw(t, "nonce"), blind, iss.TokenKeyID(), iss.TokenKey(), name, iss.NameKey())
			if err != nil {
				t.Fatalf("harness: %v", err)
			}
			anon := []byte(fmt.Sprintf("anon-%d", ni))
			if err := att.VerifyRequest(*st.Request(), blind, st.ClientKey(), anon); err != nil {
				rt.Fail(t, "C08/verify", "honest request rejected by the attester: %v", err)
				return
			}
			_, blindedReqKey, err := iss.Evaluate(st.Request().Marshal())
			if err != nil {
				rt.Fail(t, "C08/evaluate", "issuer refused an honest request for the registered origin %q: %v", name, err)
				return
			}
			s.Eval()
			s.Nontrivial([]byte(name), idx[name].Bytes())
			if want := ref.BlindCompressed(st.Request().RequestKey, idx[name], ref.IssuerBlindCtx); !bytes.Equal(blindedReqKey, want) {
				rt.Fail(t, "C08/blinded-request-key", "origin %q (one of %d look-alike names, each with its own index key): Evaluate's second result is not the request key blinded by the index key registered for THIS name", name, len(uniq))
				return
			}
			id, err := att.FinalizeIndex(st.ClientKey(), blind, blindedReqKey, anon)
			if want := ref.AnonymousIssuerOriginID(st.ClientKey(), idx[name]); err != nil || !bytes.Equal(id, want) {
				rt.Fail(t, "C08/value", "origin %q: anonymous issuer origin ID %x, reference %x (%v)", name, id, want, err)
				return
			}
			if other, dup := ids[string(id)]; dup {
				rt.Fail(t, "C08/not-distinct", "origins %q and %q (distinct index keys) give the same ID", other, name)
				return
			}
			ids[string(id)] = name
		}
		s.Sample(func() any { return map[string]any{"base": base, "names": len(uniq)} })
	})
}
