package c09

import (
	"testing"

	"verifharness/internal/rt"
)

// The rapid properties of this package under the native, coverage-guided fuzzer (thorough tier): the fuzzer's
// byte string is the stream the property draws from (rt.FuzzProp), so generators, oracle and failure
// signatures are exactly those of the named test.

func FuzzPropHistories(f *testing.F)   { rt.FuzzProp(f, rt.Capture(TestHistories)) }
func FuzzPropManyOrigins(f *testing.F) { rt.FuzzProp(f, rt.Capture(TestManyOrigins)) }
