// C09 — attester origin bookkeeping stays one-to-one over every request history.
package c09

import (
	"bytes"
	stdecdsa "crypto/ecdsa"
	"crypto/elliptic"
	"crypto/sha512"
	"encoding/hex"
	"fmt"
	"io"
	"math/big"
	"strings"
	"sync"
	"testing"

	"github.com/cloudflare/pat-go/tokens/type3"
	"pgregory.net/rapid"

	"verifharness/internal/gen"
	"verifharness/internal/ref"
	"verifharness/internal/rt"
)

func TestMain(m *testing.M) { rt.Main(m) }

type memCache struct{ m map[string]*type3.ClientState }

func (c *memCache) Get(id string) (*type3.ClientState, bool) { s, ok := c.m[id]; return s, ok }
func (c *memCache) Put(id string, s *type3.ClientState)      { c.m[id] = s }

// fixed universe: 3 clients (client 2 is never verified), 4 origins of which 0 and 3 share an index key, 3 anonymous origin IDs
type universe struct {
	iss        *type3.RateLimitedIssuer
	secrets    [3][]byte
	clientKeys [4][]byte                             // clientKeys[3] is the NEGATION of client 0's key (same x, other sign byte); it is never verified
	states     [3]type3.RateLimitedTokenRequestState // an honest request per client (for verify)
	verifyBl   [3][]byte
	indexKeys  [4]*big.Int
	refIndex   [4][4][]byte
	anon       [4][]byte // the last one is the EMPTY anonymous origin ID
	// authentic requests of clients 0 and 1 made with unusual blind VALUES (all-ff, N+5), built by the harness itself
	// (the attester never looks behind the ciphertext): request key = client key blinded with that blind, signed with d*r
	oddReq   [2][2]type3.RateLimitedTokenRequest
	oddBlind [2][]byte
}

// anonOf: anonymous origin IDs 0..3 are fixed strings; ID 4 is, for each client, byte-equal to the ISSUER origin ID
// (index value) of origin 1 for that client - the two kinds of identifier live in different name spaces.
func (u *universe) anonOf(c, a int) []byte {
	if a == 4 {
		return u.refIndex[c][1]
	}
	return u.anon[a]
}

var (
	uniOnce sync.Once
	uni     *universe
)

func theUniverse() *universe {
	uniOnce.Do(func() {
		defer rt.Entropy([]byte("c09 universe"))()
		u := &universe{}
		u.iss = type3.NewRateLimitedIssuer(gen.RSAPool()[2])
		_ = u.iss.AddOrigin("registered.example")
		n := elliptic.P384().Params().N
		for i := range u.indexKeys {
			k := i
			if i == 3 {
				k = 0 // origin 3 shares origin 0's index key
			}
			u.indexKeys[i] = new(big.Int).Mod(new(big.Int).SetBytes(bytes.Repeat([]byte{byte(0x31 + k)}, 47)), n)
		}
		for c := 0; c < 3; c++ {
			u.secrets[c] = bytes.Repeat([]byte{byte(0x51 + c)}, 47)
			u.verifyBl[c] = bytes.Repeat([]byte{byte(0x61 + c)}, 47)
			st, err := type3.NewRateLimitedClientFromSecret(u.secrets[c]).CreateTokenRequest([]byte("chal"), make([]byte, 32), u.verifyBl[c], u.iss.TokenKeyID(), u.iss.TokenKey(), "registered.example", u.iss.NameKey())
			if err != nil {
				panic(err)
			}
			u.states[c] = st
			u.clientKeys[c] = st.ClientKey()
			for o := 0; o < 4; o++ {
				u.refIndex[c][o] = ref.AnonymousIssuerOriginID(u.clientKeys[c], u.indexKeys[o])
			}
		}
		u.clientKeys[3] = append([]byte{}, u.clientKeys[0]...)
		u.clientKeys[3][0] ^= 0x01
		for o := 0; o < 4; o++ {
			u.refIndex[3][o] = ref.AnonymousIssuerOriginID(u.clientKeys[3], u.indexKeys[o])
		}
		for a := 0; a < 3; a++ {
			u.anon[a] = bytes.Repeat([]byte{byte(0xA0 + a)}, 32)
		}
		u.anon[3] = []byte{}
		u.oddBlind = [2][]byte{bytes.Repeat([]byte{0xff}, 48), new(big.Int).Add(n, big.NewInt(5)).Bytes()}
		for c := 0; c < 2; c++ {
			for k, bl := range u.oddBlind {
				r := ref.ECDSABlindScalar(elliptic.P384(), new(big.Int).SetBytes(bl), ref.ClientBlindCtx)
				db := new(big.Int).Mul(new(big.Int).SetBytes(u.secrets[c]), r)
				db.Mod(db, n)
				bx, by := elliptic.P384().ScalarBaseMult(db.Bytes())
				req := type3.RateLimitedTokenRequest{RequestKey: elliptic.MarshalCompressed(elliptic.P384(), bx, by), NameKeyID: bytes.Repeat([]byte{0x11}, 32), EncryptedTokenRequest: bytes.Repeat([]byte{0x22}, 80)}
				dg := sha512.Sum384(ref.EncodeRateLimitedRequest(req.RequestKey, req.NameKeyID, req.EncryptedTokenRequest, nil))
				rr, ss, err := stdecdsa.Sign(rt.NewDRBG([]byte{byte(c), byte(k)}), &stdecdsa.PrivateKey{PublicKey: stdecdsa.PublicKey{Curve: elliptic.P384(), X: bx, Y: by}, D: db}, dg[:])
				if err != nil {
					panic(err)
				}
				req.Signature = make([]byte, 96)
				rr.FillBytes(req.Signature[:48])
				ss.FillBytes(req.Signature[48:])
				if !bytes.Equal(req.RequestKey, ref.BlindCompressed(u.clientKeys[c], new(big.Int).SetBytes(bl), ref.ClientBlindCtx)) {
					panic("harness: blinded signing key does not match the blinded public key")
				}
				u.oddReq[c][k] = req
			}
		}
		uni = u
	})
	return uni
}

// step is one letter of a history.
type step struct {
	verify        bool
	failingVerify bool // a VerifyRequest that must be refused: another client's request presented under this client's key
	oddBlind      int  // verify: 0 = the client's honest request; 1, 2 = the harness-built authentic request with blind all-ff / N+5
	client        int
	origin        int
	anon          int
	blind         []byte
}

func (s step) String() string {
	if s.failingVerify {
		return fmt.Sprintf("verify-mismatch(c%d)", s.client)
	}
	if s.verify && s.oddBlind > 0 {
		return fmt.Sprintf("verify-unusual-blind%d(c%d)", s.oddBlind, s.client)
	}
	if s.verify {
		return fmt.Sprintf("verify(c%d)", s.client)
	}
	return fmt.Sprintf("finalize(c%d,o%d,a%d)", s.client, s.origin, s.anon)
}

// runHistory drives a fresh attester through the history, comparing every decision and ID with the model.
func runHistory(h []step) (violation string, sig string, interesting bool) {
	u := theUniverse()
	att := type3.NewRateLimitedAttester(&memCache{m: map[string]*type3.ClientState{}})
	registered := [4]bool{}
	bound := [4]map[string]int{{}, {}, {}, {}} // client -> hex(index) -> anon
	type accepted struct{ c, o, a int }
	var acc []accepted
	sawReject := false
	panicked := ""
	finalize := func(c, o, a int, blind []byte) ([]byte, error) {
		requestKey := ref.BlindCompressed(u.clientKeys[c], new(big.Int).SetBytes(blind), ref.ClientBlindCtx)
		blindedReqKey := ref.BlindCompressed(requestKey, u.indexKeys[o], ref.IssuerBlindCtx) // what the issuer would return for origin o
		// the attester gets private copies of its byte arguments, which the caller overwrites right after the call
		args := [][]byte{append([]byte{}, u.clientKeys[c]...), append([]byte{}, blind...), append([]byte{}, blindedReqKey...), append([]byte{}, u.anonOf(c, a)...)}
		var id []byte
		var err error
		if out := rt.GuardLite(func() { id, err = att.FinalizeIndex(args[0], args[1], args[2], args[3]) }); out.Panic != nil {
			panicked = fmt.Sprintf("FinalizeIndex(c%d,o%d,a%d) panicked: %v", c, o, a, out.Panic)
			return nil, fmt.Errorf("panic: %v", out.Panic)
		}
		ret := id
		id = append([]byte{}, id...)
		for i := range ret {
			ret[i] = 0xA5 // the returned ID is the caller's: it wipes / re-uses that buffer
		}
		for _, b := range args {
			for i := range b {
				b[i] = 0x5A
			}
		}
		return id, err
	}
	for i, st := range h {
		if st.failingVerify {
			// a correctly signed request of ANOTHER client presented under this client's key: must be refused and must not register the client
			other := (st.client + 1) % 3
			if err := att.VerifyRequest(*u.states[other].Request(), u.verifyBl[other], u.clientKeys[st.client], u.anon[0]); err == nil {
				return fmt.Sprintf("step %d %v: VerifyRequest accepted client c%d's request under client c%d's key", i, st, other, st.client), "C09/verify-mismatch-accepted", false
			}
			continue
		}
		if st.verify {
			if st.client == 2 {
				continue // client 2 is never verified
			}
			vargs := [][]byte{append([]byte{}, u.verifyBl[st.client]...), append([]byte{}, u.clientKeys[st.client]...), append([]byte{}, u.anon[0]...)}
			vreq := *u.states[st.client].Request()
			if st.oddBlind > 0 {
				vargs[0] = append([]byte{}, u.oddBlind[st.oddBlind-1]...)
				vreq = u.oddReq[st.client][st.oddBlind-1]
			}
			var verr error
			if out := rt.GuardLite(func() { verr = att.VerifyRequest(vreq, vargs[0], vargs[1], vargs[2]) }); out.Panic != nil {
				return fmt.Sprintf("step %d %v: VerifyRequest panicked: %v", i, st, out.Panic), "C09/panic", false
			}
			for _, b := range vargs {
				for i := range b {
					b[i] = 0x5A // the caller reuses its buffers
				}
			}
			if err := verr; err != nil {
				return fmt.Sprintf("step %d %v: honest VerifyRequest failed: %v", i, st, err), "C09/verify", false
			}
			registered[st.client] = true
			continue
		}
		id, err := finalize(st.client, st.origin, st.anon, st.blind)
		if panicked != "" {
			return fmt.Sprintf("step %d %v: %s", i, st, panicked), "C09/panic", false
		}
		idx := hex.EncodeToString(u.refIndex[st.client][st.origin])
		prev, isBound := bound[st.client][idx]
		want := registered[st.client] && (!isBound || prev == st.anon)
		if (err == nil) != want {
			kind := "C09/rejected-allowed"
			if err == nil {
				kind = "C09/accepted-forbidden"
				if !registered[st.client] {
					kind = "C09/accepted-unverified-client"
				}
			}
			return fmt.Sprintf("step %d %v: attester returned err=%v, model says accept=%v (registered=%v bound=%v to a%d)", i, st, err, want, registered[st.client], isBound, prev), kind, false
		}
		if err == nil {
			if !bytes.Equal(id, u.refIndex[st.client][st.origin]) {
				return fmt.Sprintf("step %d %v: returned ID %x, reference %x", i, st, id, u.refIndex[st.client][st.origin]), "C09/value", false
			}
			bound[st.client][idx] = st.anon
			acc = append(acc, accepted{st.client, st.origin, st.anon})
			if sawReject {
				interesting = true // a rejection followed by a later accept
			}
			if st.origin == 3 || st.origin == 0 {
				interesting = interesting || isBound // collision between origins sharing an index key
			}
		} else {
			sawReject = true
		}
	}
	// rejections left bindings in force: every accepted pair is still accepted, and no second anon ID is now accepted for a bound index
	for _, a := range acc {
		if _, err := finalize(a.c, a.o, a.a, bytes.Repeat([]byte{0x77}, 40)); err != nil {
			return fmt.Sprintf("after the history, the accepted pair (c%d,o%d,a%d) is rejected: %v", a.c, a.o, a.a, err), "C09/binding-lost", false
		}
		other := (a.a + 1) % 5
		if bound[a.c][hex.EncodeToString(u.refIndex[a.c][a.o])] != other {
			if _, err := finalize(a.c, a.o, other, bytes.Repeat([]byte{0x78}, 40)); err == nil {
				return fmt.Sprintf("after the history, a second anonymous origin ID a%d is accepted for (c%d,o%d) already bound to a%d", other, a.c, a.o, a.a), "C09/two-anon-ids", false
			}
		}
	}
	return "", "", interesting
}

func histString(h []step) string {
	var p []string
	for _, s := range h {
		p = append(p, s.String())
	}
	return strings.Join(p, " ")
}

// historyBlind: a fresh drawn blind, or one of three fixed base values b_i plus k times the group order - different
// blinds that are congruent mod N (whatever is keyed by the blind as a number instead of as the byte string it is
// would confuse them).
func historyBlind(t *rapid.T) []byte {
	if rapid.Bool().Draw(t, "freshBlind") {
		return gen.P384KeyBytes().Draw(t, "blind")
	}
	n := elliptic.P384().Params().N
	base := new(big.Int).SetBytes(bytes.Repeat([]byte{byte(0x21 + gen.Uniform(t, 3, "baseBlind"))}, 20+gen.Uniform(t, 2, "baseLen")*27))
	return base.Add(base, new(big.Int).Mul(n, big.NewInt(int64(gen.Uniform(t, 3, "k"))))).Bytes()
}

func TestHistories(t *testing.T) {
	s := rt.S("histories").SetRule("rapid state machine over {verify(client), finalize(client, origin, anonymous origin ID) with a fresh drawn blind} on 4 client keys (one never verified, one the negation of a verified key), 4 origins (two share an index key), 5 anonymous origin IDs (one of them empty, one byte-equal to the client's issuer origin ID for another origin), verifications with authentic requests whose blind is ff..ff or N+5, failing verifications (another client's request under this client's key), up to 30 steps; model: registered[client], bound[client][index]; invariant after every step: decision == (registered and (index unbound or bound to this ID)), returned ID == reference HKDF value; at the end every accepted pair is replayed (still accepted) and a second ID for a bound index is refused. non-trivial = history containing a rejection followed by a later accept, or a collision between origins sharing an index key; distinct by history")
	rt.Check(t, 150, 20000, func(t *rapid.T) {
		var h []step
		t.Repeat(map[string]func(*rapid.T){
			"verify": func(t *rapid.T) {
				st := step{verify: true, client: gen.Uniform(t, 3, "client")}
				if st.client < 2 {
					st.oddBlind = []int{0, 0, 1, 2}[gen.Uniform(t, 4, "unusualBlind")]
				}
				h = append(h, st)
			},
			"finalize": func(t *rapid.T) {
				h = append(h, step{client: gen.Uniform(t, 4, "client"), origin: gen.Uniform(t, 4, "origin"), anon: gen.Uniform(t, 5, "anon"), blind: historyBlind(t)})
			},
			"verifyMismatch": func(t *rapid.T) {
				h = append(h, step{failingVerify: true, client: gen.Uniform(t, 3, "client")})
			},
			"": func(t *rapid.T) {
				// the invariant is evaluated on the whole history so far (fresh attester): prefix-closed by construction
			},
		})
		s.Eval()
		s.Class(fmt.Sprintf("len%d-%d", len(h)/10*10, len(h)/10*10+9))
		v, sig, interesting := runHistory(h)
		if v != "" {
			rt.Fail(t, sig, "%s; history: %s", v, histString(h))
			return
		}
		if interesting {
			s.Nontrivial([]byte(histString(h)))
			s.Class("interesting")
		}
		s.Sample(func() any { return histString(h) })
	})
}

// TestAllShortHistories: bounded-exhaustive enumeration of every history up to a length over a 10-letter alphabet.
func TestAllShortHistories(t *testing.T) {
	s := rt.S("all-short-histories").SetRule("EVERY history of length <= 3 (quick) / <= 4 (thorough) over the 17-letter alphabet {verify-mismatch(c2), verify-mismatch(c0), finalize(c0,o0,empty anon ID), verify(c0), verify(c1), finalize(c0,o0,a0), finalize(c0,o0,a1), finalize(c0,o3,a0), finalize(c0,o3,a1), finalize(c0,o1,a0), finalize(c1,o0,a0), finalize(c1,o0,a1), finalize(c2,o0,a0), verify(c0) with an authentic request whose blind is ff..ff, finalize(c0,o0, anon ID := issuer origin ID of (c0,o1))} with fixed blinds; same model and invariants; non-trivial = every history of length >= 2; distinct by construction")
	bl := bytes.Repeat([]byte{0x42}, 33)
	alphabet := []step{
		{verify: true, client: 0}, {verify: true, client: 1},
		{client: 0, origin: 0, anon: 0, blind: bl}, {client: 0, origin: 0, anon: 1, blind: bl},
		{client: 0, origin: 3, anon: 0, blind: bl}, {client: 0, origin: 3, anon: 1, blind: bl},
		{client: 0, origin: 1, anon: 0, blind: bl},
		{client: 1, origin: 0, anon: 0, blind: bl}, {client: 1, origin: 0, anon: 1, blind: bl},
		{client: 2, origin: 0, anon: 0, blind: bl},
		{client: 0, origin: 0, anon: 3, blind: bl}, // the empty anonymous origin ID
		{client: 3, origin: 0, anon: 0, blind: bl}, // the negation of client 0's key: never verified
		{failingVerify: true, client: 2},
		{failingVerify: true, client: 0},
		{verify: true, client: 0, oddBlind: 1},     // authentic request made with the blind ff..ff
		{client: 0, origin: 0, anon: 4, blind: bl}, // anonymous origin ID byte-equal to the issuer origin ID of (c0, o1)
		{client: 0, origin: 0, anon: 1, blind: new(big.Int).Add(new(big.Int).SetBytes(bl), elliptic.P384().Params().N).Bytes()}, // the blind of the other letters plus the group order
	}
	maxLen := 3
	if rt.Thorough() {
		maxLen = 4
	}
	count := 0
	var cnt, nontrivial int64
	var rec func(h []step)
	rec = func(h []step) {
		if len(h) > 0 {
			count++
			if rt.Mine(count) {
				cnt++
				if len(h) >= 2 {
					nontrivial++
				}
				if v, sig, _ := runHistory(h); v != "" {
					rt.Report(t, sig, "", nil, "%s; history: %s", v, histString(h))
				}
			}
		}
		if len(h) == maxLen {
			return
		}
		for _, a := range alphabet {
			rec(append(append([]step{}, h...), a))
		}
	}
	rec(nil)
	s.EvalN(cnt)
	s.NontrivialEnum(nontrivial)
	s.MarkExhaustive(fmt.Sprintf("all histories of length <= %d over a 17-letter alphabet", maxLen))
	s.Sample(func() any { return histString([]step{alphabet[0], alphabet[2], alphabet[5], alphabet[4]}) })
}

// TestManyClients: the bookkeeping must not depend on HOW MANY clients and bindings the attester has seen (tables,
// caches or pools with a capacity would start to forget or to confuse entries at some size). Many clients (harness-built
// authentic requests, so the cost per client is a few scalar multiplications) are verified and bound to two origins
// each; afterwards every accepted pair must still be accepted with the same ID, a second anonymous origin ID for a bound
// index must still be refused, and a client that was never verified must still be refused.
func TestManyClients(t *testing.T) {
	s := rt.S("many-clients").SetRule("N clients (quick 300, thorough 1500 per shard) with drawn secrets and blinds: VerifyRequest of a harness-built authentic request, FinalizeIndex for two origins with per-client anonymous origin IDs; after ALL clients: every accepted (client, origin, anon) is accepted again with the reference ID, another anon ID for the same index is refused, an unverified client is refused. non-trivial = every client beyond the first; distinct by client secret")
	nClients := rt.N(300, 24000)
	u := theUniverse()
	n := elliptic.P384().Params().N
	stream := rt.NewDRBG([]byte(fmt.Sprintf("many clients %d %d", rt.BaseSeed, rt.Shard)))
	att := type3.NewRateLimitedAttester(&memCache{m: map[string]*type3.ClientState{}})
	type client struct {
		key, blind []byte
		ids        [2][]byte
	}
	var clients []client
	scalar := func() *big.Int {
		b := make([]byte, 56)
		if _, err := io.ReadFull(stream, b); err != nil {
			t.Fatal(err)
		}
		v := new(big.Int).SetBytes(b)
		return v.Mod(v, new(big.Int).Sub(n, big.NewInt(1))).Add(v, big.NewInt(1))
	}
	finalize := func(c client, o int, anon []byte) ([]byte, error) {
		requestKey := ref.BlindCompressed(c.key, new(big.Int).SetBytes(c.blind), ref.ClientBlindCtx)
		blindedReqKey := ref.BlindCompressed(requestKey, u.indexKeys[o], ref.IssuerBlindCtx)
		var id []byte
		var err error
		if out := rt.GuardLite(func() {
			id, err = att.FinalizeIndex(append([]byte{}, c.key...), append([]byte{}, c.blind...), blindedReqKey, append([]byte{}, anon...))
		}); out.Panic != nil {
			return nil, fmt.Errorf("panic: %v", out.Panic)
		}
		return append([]byte{}, id...), err
	}
	anonOf := func(i, o int) []byte { return []byte(fmt.Sprintf("anon-%d-%d", i, o)) }
	for i := 0; i < nClients; i++ {
		d := scalar()
		x, y := elliptic.P384().ScalarBaseMult(d.Bytes())
		c := client{key: elliptic.MarshalCompressed(elliptic.P384(), x, y), blind: scalar().Bytes()}
		r := ref.ECDSABlindScalar(elliptic.P384(), new(big.Int).SetBytes(c.blind), ref.ClientBlindCtx)
		db := new(big.Int).Mul(d, r)
		db.Mod(db, n)
		bx, by := elliptic.P384().ScalarBaseMult(db.Bytes())
		req := type3.RateLimitedTokenRequest{RequestKey: elliptic.MarshalCompressed(elliptic.P384(), bx, by), NameKeyID: bytes.Repeat([]byte{0x11}, 32), EncryptedTokenRequest: bytes.Repeat([]byte{byte(i)}, 64)}
		dg := sha512.Sum384(ref.EncodeRateLimitedRequest(req.RequestKey, req.NameKeyID, req.EncryptedTokenRequest, nil))
		rr, ss, err := stdecdsa.Sign(stream, &stdecdsa.PrivateKey{PublicKey: stdecdsa.PublicKey{Curve: elliptic.P384(), X: bx, Y: by}, D: db}, dg[:])
		if err != nil {
			t.Fatal(err)
		}
		req.Signature = make([]byte, 96)
		rr.FillBytes(req.Signature[:48])
		ss.FillBytes(req.Signature[48:])
		if err := att.VerifyRequest(req, append([]byte{}, c.blind...), append([]byte{}, c.key...), anonOf(i, 0)); err != nil {
			rt.Report(t, "C09/many/verify", "", nil, "client %d of %d: authentic request refused: %v", i, nClients, err)
			return
		}
		for o := 0; o < 2; o++ {
			id, err := finalize(c, o, anonOf(i, o))
			want := ref.AnonymousIssuerOriginID(c.key, u.indexKeys[o])
			if err != nil || !bytes.Equal(id, want) {
				rt.Report(t, "C09/many/first-binding", "", nil, "client %d of %d, origin %d: first, unbound pair: err=%v id=%x want %x", i, nClients, o, err, id, want)
				return
			}
			c.ids[o] = want
		}
		clients = append(clients, c)
		s.Eval()
	}
	for i, c := range clients {
		for o := 0; o < 2; o++ {
			if id, err := finalize(c, o, anonOf(i, o)); err != nil || !bytes.Equal(id, c.ids[o]) {
				rt.Report(t, "C09/many/binding-lost", "", nil, "after %d clients: the accepted pair of client %d, origin %d is now answered err=%v id=%x (was %x)", len(clients), i, o, err, id, c.ids[o])
				return
			}
			if _, err := finalize(c, o, anonOf(i, 1-o)); err == nil {
				rt.Report(t, "C09/many/two-anon-ids", "", nil, "after %d clients: a second anonymous origin ID is accepted for client %d, origin %d", len(clients), i, o)
				return
			}
		}
	}
	d := scalar()
	x, y := elliptic.P384().ScalarBaseMult(d.Bytes())
	if _, err := finalize(client{key: elliptic.MarshalCompressed(elliptic.P384(), x, y), blind: scalar().Bytes()}, 0, []byte("anon")); err == nil {
		rt.Report(t, "C09/many/accepted-unverified-client", "", nil, "after %d clients: a client that was never verified is accepted", len(clients))
		return
	}
	if len(clients) > 1 {
		s.NontrivialEnum(int64(len(clients) - 1))
	}
	s.Sample(func() any { return map[string]any{"clients": len(clients)} })
}

// TestManyOrigins: ONE client binds many origins with distinct index keys (a per-client table with a small inline
// capacity, or one that is rebuilt when it grows, must not lose or confuse bindings). After all bindings a DIFFERENT
// anonymous origin ID is presented for every origin first (must be refused - a repeat of the accepted pair first could
// silently re-create a lost binding), then every accepted pair again (must be accepted with the same ID).
func TestManyOrigins(t *testing.T) {
	s := rt.S("many-origins").SetRule("one verified client, N origins (quick 8..70 in several sizes, thorough up to 600) with distinct index keys, one binding each in drawn order; afterwards, in drawn order: a different anonymous origin ID for each origin is refused, then each accepted pair is accepted again with the reference ID. non-trivial = every size; distinct by (client, size, order)")
	u := theUniverse()
	n := elliptic.P384().Params().N
	rt.Check(t, 8, 640, func(t *rapid.T) {
		sizes := []int{8, 9, 10, 17, 33, 70}
		if rt.Thorough() {
			sizes = append(sizes, 130, 260, 600)
		}
		nOrigins := gen.Pick(t, sizes, "origins")
		seed := gen.Seed().Draw(t, "seed")
		stream := rt.NewDRBG(seed)
		scalar := func() *big.Int {
			b := make([]byte, 56)
			if _, err := io.ReadFull(stream, b); err != nil {
				t.Fatalf("harness: %v", err)
			}
			v := new(big.Int).SetBytes(b)
			return v.Mod(v, new(big.Int).Sub(n, big.NewInt(1))).Add(v, big.NewInt(1))
		}
		c := 0
		att := type3.NewRateLimitedAttester(&memCache{m: map[string]*type3.ClientState{}})
		if err := att.VerifyRequest(*u.states[c].Request(), u.verifyBl[c], u.clientKeys[c], u.anon[0]); err != nil {
			rt.Fail(t, "C09/verify", "honest VerifyRequest failed: %v", err)
			return
		}
		idx := make([]*big.Int, nOrigins)
		for i := range idx {
			idx[i] = scalar()
		}
		finalize := func(o int, anon []byte) ([]byte, error) {
			blind := scalar().Bytes()
			requestKey := ref.BlindCompressed(u.clientKeys[c], new(big.Int).SetBytes(blind), ref.ClientBlindCtx)
			blindedReqKey := ref.BlindCompressed(requestKey, idx[o], ref.IssuerBlindCtx)
			var id []byte
			var err error
			if out := rt.GuardLite(func() { id, err = att.FinalizeIndex(append([]byte{}, u.clientKeys[c]...), blind, blindedReqKey, anon) }); out.Panic != nil {
				return nil, fmt.Errorf("panic: %v", out.Panic)
			}
			return append([]byte{}, id...), err
		}
		anonOf := func(o int) []byte { return []byte(fmt.Sprintf("anon-origin-%d", o)) }
		s.Eval()
		s.Class(fmt.Sprintf("%d-origins", nOrigins))
		s.Nontrivial(seed, []byte{byte(nOrigins), byte(nOrigins >> 8)})
		for _, o := range rapid.Permutation(seq(nOrigins)).Draw(t, "bindOrder") {
			id, err := finalize(o, anonOf(o))
			if want := ref.AnonymousIssuerOriginID(u.clientKeys[c], idx[o]); err != nil || !bytes.Equal(id, want) {
				rt.Fail(t, "C09/many-origins/first-binding", "origin %d of %d: first, unbound pair answered err=%v id=%x want %x", o, nOrigins, err, id, want)
				return
			}
		}
		for _, o := range rapid.Permutation(seq(nOrigins)).Draw(t, "probeOrder") {
			if _, err := finalize(o, []byte(fmt.Sprintf("another-anon-%d", o))); err == nil {
				rt.Fail(t, "C09/many-origins/two-anon-ids", "client with %d bound origins: a second anonymous origin ID is accepted for origin %d", nOrigins, o)
				return
			}
		}
		for o := 0; o < nOrigins; o++ {
			id, err := finalize(o, anonOf(o))
			if want := ref.AnonymousIssuerOriginID(u.clientKeys[c], idx[o]); err != nil || !bytes.Equal(id, want) {
				rt.Fail(t, "C09/many-origins/binding-lost", "client with %d bound origins: the accepted pair of origin %d is now answered err=%v", nOrigins, o, err)
				return
			}
		}
		s.Sample(func() any { return map[string]any{"origins": nOrigins} })
	})
}

func seq(n int) []int {
	out := make([]int, n)
	for i := range out {
		out[i] = i
	}
	return out
}

// TestChecksumTwinIDs: anonymous origin IDs that are different byte strings of equal length with the same weak checksum
// (CRC-32, FNV, Adler, byte sum / xor): for one client and one issuer origin ID the first is accepted, the second must
// be refused, the first accepted again; with another origin the second is accepted.
func TestChecksumTwinIDs(t *testing.T) {
	s := rt.S("checksum-twin-ids").SetRule("for each of 7 checksum families a pair (A, B) of colliding anonymous origin IDs: verify(c0); (c0,o0,A) accepted; (c0,o0,B) refused; (c0,o0,A) accepted; (c0,o1,B) accepted; (c0,o1,A) refused. non-trivial = every pair; distinct by construction")
	u := theUniverse()
	var cnt int64
	for _, tw := range gen.WeakHashCollisions("anonymous-origin-%s") {
		att := type3.NewRateLimitedAttester(&memCache{m: map[string]*type3.ClientState{}})
		if err := att.VerifyRequest(*u.states[0].Request(), u.verifyBl[0], u.clientKeys[0], u.anon[0]); err != nil {
			rt.Report(t, "C09/verify", "", nil, "honest VerifyRequest failed: %v", err)
			return
		}
		blind := bytes.Repeat([]byte{0x42}, 33)
		fin := func(o int, anon string) error {
			requestKey := ref.BlindCompressed(u.clientKeys[0], new(big.Int).SetBytes(blind), ref.ClientBlindCtx)
			blindedReqKey := ref.BlindCompressed(requestKey, u.indexKeys[o], ref.IssuerBlindCtx)
			var err error
			if out := rt.GuardLite(func() {
				_, err = att.FinalizeIndex(append([]byte{}, u.clientKeys[0]...), blind, blindedReqKey, []byte(anon))
			}); out.Panic != nil {
				return fmt.Errorf("panic: %v", out.Panic)
			}
			return err
		}
		steps := []struct {
			o      int
			anon   string
			accept bool
		}{{0, tw.A, true}, {0, tw.B, false}, {0, tw.A, true}, {1, tw.B, true}, {1, tw.A, false}, {1, tw.B, true}}
		for i, st := range steps {
			err := fin(st.o, st.anon)
			cnt++
			if (err == nil) != st.accept {
				rt.Report(t, "C09/checksum-twins/"+map[bool]string{true: "rejected-allowed", false: "accepted-forbidden"}[st.accept], "", nil,
					"anonymous origin IDs %q and %q (equal length, equal %s): step %d (origin %d, ID %q) answered err=%v, expected accept=%v", tw.A, tw.B, tw.Hash, i, st.o, st.anon, err, st.accept)
				break
			}
		}
	}
	s.EvalN(cnt)
	s.NontrivialEnum(cnt)
	s.Sample(func() any { return gen.WeakHashCollisions("anonymous-origin-%s") })
}
