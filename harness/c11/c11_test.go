// C11 — issuance with fixed blinds is reproducible and the token ignores the blind.
package c11

import (
	"bytes"
	"crypto/rsa"
	"crypto/sha256"
	"crypto/x509"
	"encoding/asn1"
	"encoding/hex"
	"encoding/json"
	"fmt"
	"math/big"
	"os"
	"path/filepath"
	"testing"

	"github.com/cloudflare/circl/group"
	"github.com/cloudflare/circl/oprf"
	"github.com/cloudflare/pat-go/tokens"
	"github.com/cloudflare/pat-go/tokens/batched"
	"github.com/cloudflare/pat-go/tokens/type1"
	"github.com/cloudflare/pat-go/tokens/type2"
	"github.com/cloudflare/pat-go/tokens/type5"
	"pgregory.net/rapid"

	"verifharness/internal/gen"
	"verifharness/internal/ref"
	"verifharness/internal/rt"
)

func TestMain(m *testing.M) { rt.Main(m) }

const rule = "key, challenge, nonce(s), salt and a PAIR of distinct blinds are drawn; the WithBlind(s) entry point is run twice with blind A and once with blind B, each request is evaluated by the issuer and finalized; oracle: same arguments => identical request bytes and identical token bytes; different blinds => different request bytes (witness that the blind is used) and IDENTICAL token bytes. non-trivial = every pair (the blinds differ by construction); distinct by (key id, challenge, nonces, blinds)"

// one issuance with a given blind: returns request bytes and token bytes (concatenated for batches)
type issuance func(blinds [][]byte) (req, toks []byte, err error)

func checkPair(t *rapid.T, s *rt.Sub, typ uint16, run issuance, blindA, blindB [][]byte, ident ...[]byte) {
	s.Eval()
	tn := gen.TypeName(typ)
	// absolute part of the oracle: ident = key id, challenge, nonce(s) [, salt]; every token starts with type||nonce||SHA-256(challenge)||key id
	defer func() {
		if len(ident) < 3 {
			return
		}
	}()
	reqA1, tokA1, err := run(blindA)
	if err != nil {
		rt.Fail(t, "C11/"+tn+"/run", "issuance with a supplied blind failed: %v", err)
		return
	}
	reqA2, tokA2, err := run(blindA)
	if err != nil {
		rt.Fail(t, "C11/"+tn+"/run", "second issuance with the same blind failed: %v", err)
		return
	}
	reqB, tokB, err := run(blindB)
	if err != nil {
		rt.Fail(t, "C11/"+tn+"/run", "issuance with the other blind failed: %v", err)
		return
	}
	if len(ident) >= 3 && (typ == 1 || typ == 5) {
		// absolute oracle for the request bytes: type || last byte of the key id || blind * HashToGroup(token input), the
		// group operations done through circl's group API directly (RFC 9497 context string written out here), the
		// framing by the harness's reference encoder
		if want := expectedRequest(typ, ident[0], ident[1], ident[2], blindA); !bytes.Equal(reqA1, want) {
			rt.Fail(t, "C11/"+tn+"/request-value", "request bytes %s are not type || key id byte || [blind]HashToGroup(type||nonce||SHA-256(challenge)||key id) = %s (blinds %x)", rt.Hex(reqA1), rt.Hex(want), blindA)
			return
		}
	}
	if !bytes.Equal(reqA1, reqA2) {
		rt.Fail(t, "C11/"+tn+"/request-not-reproducible", "same arguments, different request bytes: %s vs %s", rt.Hex(reqA1), rt.Hex(reqA2))
		return
	}
	if !bytes.Equal(tokA1, tokA2) {
		rt.Fail(t, "C11/"+tn+"/token-not-reproducible", "same arguments, different token bytes")
		return
	}
	if bytes.Equal(reqA1, reqB) {
		rt.Fail(t, "C11/"+tn+"/blind-unused", "two different blinds give the same request bytes: the supplied blind is not used")
		return
	}
	if !bytes.Equal(tokA1, tokB) {
		rt.Fail(t, "C11/"+tn+"/token-depends-on-blind", "tokens differ between two blinds: %s vs %s", rt.Hex(tokA1), rt.Hex(tokB))
		return
	}
	if len(ident) >= 3 {
		keyID, chal, nonces := ident[0], ident[1], ident[2]
		n := len(nonces) / 32
		tl := len(tokA1) / n
		for i := 0; i < n; i++ {
			want := gen.AuthInput(typ, nonces[32*i:32*i+32], chal, keyID)
			if got := tokA1[i*tl : i*tl+98]; !bytes.Equal(got, want) {
				rt.Fail(t, "C11/"+tn+"/token-not-function-of-arguments", "token %d does not carry the type, nonce, SHA-256(challenge) and key id passed at creation (the caller overwrote its argument buffers after the request was created): got %x want %x", i, got, want)
				return
			}
		}
	}
	parts := append([][]byte{{byte(typ)}}, ident...)
	for _, b := range append(append([][]byte{}, blindA...), blindB...) {
		parts = append(parts, b)
	}
	s.Nontrivial(parts...)
	s.Sample(func() any {
		return map[string]any{"type": typ, "blindA": rt.Hex(bytes.Join(blindA, nil)), "blindB": rt.Hex(bytes.Join(blindB, nil)), "requestA": rt.Hex(reqA1), "requestB": rt.Hex(reqB), "token": rt.Hex(tokA1)}
	})
}

// TestUnusualNonceLengths: the request is a function of the nonce BYTES whatever their number (the API takes a slice):
// nonces of 16, 31, 33 and 40 bytes, and type-5 batches whose nonces differ in length. Creation may refuse such
// arguments; if it does not, the request bytes must be the independent value for exactly these arguments, and a
// second creation must reproduce them.
func TestUnusualNonceLengths(t *testing.T) {
	s := rt.S("unusual-nonce-lengths").SetRule("types 1 and 5, fixed blinds, nonces of 16/31/33/40 bytes (type 5: 1..4 nonces of mixed lengths incl. 32): creation refused, or request bytes == type || key-id byte || [blind]HashToGroup(type || nonce || SHA-256(challenge) || key id) per nonce (circl group API) and reproducible. non-trivial = every case with an accepted creation; distinct by (type, nonces, blinds)")
	rt.Check(t, 60, 8000, func(t *rapid.T) {
		defer rt.Entropy(gen.Seed().Draw(t, "entropy"))()
		chal := gen.Challenge().Draw(t, "challenge")
		odd := func(label string) []byte {
			n := gen.Pick(t, []int{16, 31, 33, 40, 32}, label+"/len")
			return gen.Bytes(t, n, n, label)
		}
		s.Eval()
		var got, again, want []byte
		var err error
		if rapid.Bool().Draw(t, "type5") {
			key := gen.OPRFKey(oprf.SuiteRistretto255, gen.Seed().Draw(t, "keyseed"))
			issuer := type5.NewBatchedPrivateIssuer(key)
			n := gen.UniformRange(t, 1, 4, "batch")
			var nonces, blinds [][]byte
			for i := 0; i < n; i++ {
				nonces, blinds = append(nonces, odd("nonce")), append(blinds, gen.RistrettoScalar().Draw(t, "blind"))
			}
			s.Class("type5")
			create := func() ([]byte, error) {
				var st type5.BatchedPrivateTokenRequestState
				var e error
				if o := rt.GuardLite(func() {
					st, e = type5.NewBatchedPrivateClient().CreateTokenRequestWithBlinds(chal, nonces, issuer.TokenKeyID(), issuer.TokenKey(), blinds)
				}); o.Panic != nil {
					return nil, fmt.Errorf("panic: %v", o.Panic)
				}
				if e != nil {
					return nil, e
				}
				return append([]byte{}, st.Request().Marshal()...), nil
			}
			if got, err = create(); err == nil {
				again, _ = create()
				want = expectedRequestVar(5, issuer.TokenKeyID(), chal, nonces, blinds)
			}
		} else {
			key := gen.OPRFKey(oprf.SuiteP384, gen.Seed().Draw(t, "keyseed"))
			issuer := type1.NewBasicPrivateIssuer(key)
			nonce, blind := odd("nonce"), gen.P384Scalar().Draw(t, "blind")
			s.Class("type1")
			create := func() ([]byte, error) {
				var st type1.BasicPrivateTokenRequestState
				var e error
				if o := rt.GuardLite(func() {
					st, e = type1.NewBasicPrivateClient().CreateTokenRequestWithBlind(chal, nonce, issuer.TokenKeyID(), issuer.TokenKey(), blind)
				}); o.Panic != nil {
					return nil, fmt.Errorf("panic: %v", o.Panic)
				}
				if e != nil {
					return nil, e
				}
				return append([]byte{}, st.Request().Marshal()...), nil
			}
			if got, err = create(); err == nil {
				again, _ = create()
				want = expectedRequestVar(1, issuer.TokenKeyID(), chal, [][]byte{nonce}, [][]byte{blind})
			}
		}
		if err != nil {
			s.Class("creation-refused")
			return
		}
		s.Nontrivial(got)
		if !bytes.Equal(got, want) {
			rt.Fail(t, "C11/unusual-nonce-length/request-value", "request created for nonces of unusual length is not type || key id byte || [blind]HashToGroup(type||nonce||SHA-256(challenge)||key id) for these arguments: got %s want %s", rt.Hex(got), rt.Hex(want))
			return
		}
		if !bytes.Equal(got, again) {
			rt.Fail(t, "C11/unusual-nonce-length/request-not-reproducible", "same arguments, different request bytes")
		}
	})
}

// expectedRequest computes a type-1 / type-5 token request from its arguments without pat-go.
func expectedRequest(typ uint16, keyID, chal, nonces []byte, blinds [][]byte) []byte {
	var ns [][]byte
	for i := range blinds {
		ns = append(ns, nonces[32*i:32*i+32])
	}
	return expectedRequestVar(typ, keyID, chal, ns, blinds)
}

// expectedRequestVar is expectedRequest for nonces of any length.
func expectedRequestVar(typ uint16, keyID, chal []byte, nonces [][]byte, blinds [][]byte) []byte {
	var g group.Group = group.P384
	dst := "HashToGroup-OPRFV1-\x01-P384-SHA384"
	if typ == 5 {
		g, dst = group.Ristretto255, "HashToGroup-OPRFV1-\x01-ristretto255-SHA512"
	}
	var elements [][]byte
	for i := range blinds {
		input := gen.AuthInput(typ, nonces[i], chal, keyID)
		sc := g.NewScalar()
		if typ == 1 {
			sc.SetBigInt(new(big.Int).SetBytes(blinds[i])) // big-endian integer, any length
		} else if err := sc.UnmarshalBinary(blinds[i]); err != nil {
			return nil
		}
		el := g.NewElement().Mul(g.HashToElement(input, []byte(dst)), sc)
		enc, err := el.MarshalBinaryCompress()
		if err != nil {
			return nil
		}
		elements = append(elements, enc)
	}
	if typ == 1 {
		return ref.EncodeBasicRequest(1, keyID[len(keyID)-1], elements[0])
	}
	return ref.EncodeBatchedPrivateRequest(keyID[len(keyID)-1], elements)
}

// callerBuffers hands out private copies of argument values and can overwrite all of them: a caller that
// reuses its buffers once the request has been created.
type callerBuffers struct{ bufs, orig [][]byte }

func (c *callerBuffers) arg(b []byte) []byte {
	x := append([]byte{}, b...)
	c.bufs = append(c.bufs, x)
	c.orig = append(c.orig, b)
	return x
}

// changed reports an argument buffer that the library modified.
func (c *callerBuffers) changed() error {
	for i := range c.bufs {
		if !bytes.Equal(c.bufs[i], c.orig[i]) {
			return fmt.Errorf("request creation modified its argument %d: %x -> %x (a pure function of its arguments does not write to them)", i, c.orig[i], c.bufs[i])
		}
	}
	return nil
}

func (c *callerBuffers) args(l [][]byte) [][]byte {
	out := make([][]byte, len(l))
	for i := range l {
		out[i] = c.arg(l[i])
	}
	return out
}

func (c *callerBuffers) overwrite() {
	for _, b := range c.bufs {
		for i := range b {
			b[i] = 0x5A
		}
	}
}

func distinctPair(t *rapid.T, g *rapid.Generator[[]byte], n int) (a, b [][]byte) {
	for i := 0; i < n; i++ {
		x := g.Draw(t, "blindA")
		y := g.Draw(t, "blindB")
		for bytes.Equal(x, y) {
			y = g.Draw(t, "blindB'")
		}
		a, b = append(a, x), append(b, y)
	}
	return
}

func TestType1(t *testing.T) {
	s := rt.S("type1").SetRule(rule)
	rt.Check(t, 60, 15000, func(t *rapid.T) {
		defer rt.Entropy(gen.Seed().Draw(t, "entropy"))()
		key := gen.OPRFKey(oprf.SuiteP384, gen.Seed().Draw(t, "keyseed"))
		issuer := type1.NewBasicPrivateIssuer(key)
		chal, nonce := gen.Challenge().Draw(t, "challenge"), gen.Bytes32().Draw(t, "nonce")
		a, b := distinctPair(t, gen.P384Scalar(), 1)
		if gen.Uniform(t, 4, "shortBlind") == 0 {
			// the same kind of value in a shorter big-endian encoding (what big.Int.Bytes() gives for a small scalar)
			a[0] = append([]byte{1}, gen.Bytes(t, 0, 46, "shortBlindBytes")...)
			if new(big.Int).SetBytes(a[0]).Cmp(new(big.Int).SetBytes(b[0])) == 0 {
				a[0] = append(a[0][:len(a[0]):len(a[0])], 7) // (the two blinds must differ as NUMBERS: a short encoding and a zero-padded one of the same value are the same blind)
			}
			s.Class("blind-shorter-than-48-bytes")
		}
		run := func(blinds [][]byte) ([]byte, []byte, error) {
			var cb callerBuffers
			st, err := type1.NewBasicPrivateClient().CreateTokenRequestWithBlind(cb.arg(chal), cb.arg(nonce), cb.arg(issuer.TokenKeyID()), issuer.TokenKey(), cb.arg(blinds[0]))
			if err != nil {
				return nil, nil, err
			}
			if err := cb.changed(); err != nil {
				return nil, nil, err
			}
			cb.overwrite() // the caller reuses its buffers before finalizing
			req := append([]byte{}, st.Request().Marshal()...)
			resp, err := issuer.Evaluate(st.Request())
			if err != nil {
				return nil, nil, err
			}
			tok, err := st.FinalizeToken(resp)
			if err != nil {
				return nil, nil, err
			}
			return req, tok.Marshal(), nil
		}
		checkPair(t, s, 1, run, a, b, issuer.TokenKeyID(), chal, nonce)
	})
}

func TestType5(t *testing.T) {
	s := rt.S("type5").SetRule(rule)
	rt.Check(t, 100, 20000, func(t *rapid.T) {
		defer rt.Entropy(gen.Seed().Draw(t, "entropy"))()
		key := gen.OPRFKey(oprf.SuiteRistretto255, gen.Seed().Draw(t, "keyseed"))
		issuer := type5.NewBatchedPrivateIssuer(key)
		chal := gen.Challenge().Draw(t, "challenge")
		n := rapid.IntRange(1, 6).Draw(t, "batch")
		var nonces [][]byte
		for i := 0; i < n; i++ {
			nonces = append(nonces, gen.Bytes32().Draw(t, "nonce"))
		}
		a, b := distinctPair(t, gen.RistrettoScalar(), n)
		// also: blinds equal except in ONE position
		if n > 1 && rapid.Bool().Draw(t, "differInOne") {
			k := gen.Uniform(t, n, "pos")
			for i := range b {
				if i != k {
					b[i] = a[i]
				}
			}
		}
		run := func(blinds [][]byte) ([]byte, []byte, error) {
			var cb callerBuffers
			st, err := type5.NewBatchedPrivateClient().CreateTokenRequestWithBlinds(cb.arg(chal), cb.args(nonces), cb.arg(issuer.TokenKeyID()), issuer.TokenKey(), cb.args(blinds))
			if err != nil {
				return nil, nil, err
			}
			if err := cb.changed(); err != nil {
				return nil, nil, err
			}
			cb.overwrite()
			req := append([]byte{}, st.Request().Marshal()...)
			resp, err := issuer.Evaluate(st.Request())
			if err != nil {
				return nil, nil, err
			}
			toks, err := st.FinalizeTokens(resp)
			if err != nil {
				return nil, nil, err
			}
			var out []byte
			for _, tk := range toks {
				out = append(out, tk.Marshal()...)
			}
			return req, out, nil
		}
		checkPair(t, s, 5, run, a, b, issuer.TokenKeyID(), chal, bytes.Join(nonces, nil))
	})
}

func TestType2(t *testing.T) {
	s := rt.S("type2").SetRule(rule)
	rt.Check(t, 100, 20000, func(t *rapid.T) {
		defer rt.Entropy(gen.Seed().Draw(t, "entropy"))()
		key := gen.RSAPool()[gen.RSAKey().Draw(t, "rsakey")]
		issuer := type2.NewBasicPublicIssuer(key)
		chal, nonce := gen.Challenge().Draw(t, "challenge"), gen.Bytes32().Draw(t, "nonce")
		salt := rapid.SliceOfN(rapid.Byte(), 48, 48).Draw(t, "salt")
		ba := gen.RSABlind(t, key.N)
		bb := gen.RSABlind(t, key.N)
		if bytes.Equal(ba, bb) {
			t.Skip("equal blinds drawn")
		}
		run := func(blinds [][]byte) ([]byte, []byte, error) {
			var cb callerBuffers
			st, err := type2.NewBasicPublicClient().CreateTokenRequestWithBlind(cb.arg(chal), cb.arg(nonce), cb.arg(issuer.TokenKeyID()), issuer.TokenKey(), cb.arg(blinds[0]), cb.arg(salt))
			if err != nil {
				return nil, nil, err
			}
			if err := cb.changed(); err != nil {
				return nil, nil, err
			}
			cb.overwrite()
			req := append([]byte{}, st.Request().Marshal()...)
			resp, err := issuer.Evaluate(st.Request())
			if err != nil {
				return nil, nil, err
			}
			tok, err := st.FinalizeToken(resp)
			if err != nil {
				return nil, nil, err
			}
			return req, tok.Marshal(), nil
		}
		checkPair(t, s, 2, run, [][]byte{ba}, [][]byte{bb}, issuer.TokenKeyID(), chal, nonce, salt)
	})
}

// TestArgumentBufferReuse: request creation must be a function of the argument VALUES - a caller that
// reuses one buffer for successive challenges / nonces must get what fresh buffers would give.
func TestArgumentBufferReuse(t *testing.T) {
	s := rt.S("argument-buffer-reuse").SetRule("types 1, 2, 5 with fixed key, blinds and salt: issuance for (challenge A, nonces A) held in caller buffers; the buffers are then overwritten IN PLACE with (challenge B, nonces B) of the same lengths and issuance is run again from the same buffers; request and token bytes must equal those of an issuance from fresh copies of B. non-trivial = A != B; distinct by (type, A, B)")
	rt.Check(t, 90, 20000, func(t *rapid.T) {
		defer rt.Entropy(gen.Seed().Draw(t, "entropy"))()
		typ := gen.Pick(t, []uint16{1, 2, 5}, "type")
		n := 1
		if typ == 5 {
			n = rapid.IntRange(1, 4).Draw(t, "batch")
		}
		var issue func(chal []byte, nonces [][]byte) ([]byte, []byte, error)
		switch typ {
		case 1:
			key := gen.OPRFKey(oprf.SuiteP384, gen.Seed().Draw(t, "keyseed"))
			issuer := type1.NewBasicPrivateIssuer(key)
			blind := gen.P384Scalar().Draw(t, "blind")
			client := type1.NewBasicPrivateClient()
			issue = func(chal []byte, nonces [][]byte) ([]byte, []byte, error) {
				st, err := client.CreateTokenRequestWithBlind(chal, nonces[0], issuer.TokenKeyID(), issuer.TokenKey(), blind)
				if err != nil {
					return nil, nil, err
				}
				req := append([]byte{}, st.Request().Marshal()...)
				resp, err := issuer.Evaluate(st.Request())
				if err != nil {
					return nil, nil, err
				}
				tok, err := st.FinalizeToken(resp)
				return req, tok.Marshal(), err
			}
		case 2:
			key := gen.RSAPool()[gen.RSAKey().Draw(t, "rsakey")]
			issuer := type2.NewBasicPublicIssuer(key)
			blind, salt := gen.RSABlind(t, key.N), rapid.SliceOfN(rapid.Byte(), 48, 48).Draw(t, "salt")
			client := type2.NewBasicPublicClient()
			issue = func(chal []byte, nonces [][]byte) ([]byte, []byte, error) {
				st, err := client.CreateTokenRequestWithBlind(chal, nonces[0], issuer.TokenKeyID(), issuer.TokenKey(), blind, salt)
				if err != nil {
					return nil, nil, err
				}
				req := append([]byte{}, st.Request().Marshal()...)
				resp, err := issuer.Evaluate(st.Request())
				if err != nil {
					return nil, nil, err
				}
				tok, err := st.FinalizeToken(resp)
				return req, tok.Marshal(), err
			}
		case 5:
			key := gen.OPRFKey(oprf.SuiteRistretto255, gen.Seed().Draw(t, "keyseed"))
			issuer := type5.NewBatchedPrivateIssuer(key)
			var blinds [][]byte
			for i := 0; i < n; i++ {
				blinds = append(blinds, gen.RistrettoScalar().Draw(t, "blind"))
			}
			client := type5.NewBatchedPrivateClient()
			issue = func(chal []byte, nonces [][]byte) ([]byte, []byte, error) {
				st, err := client.CreateTokenRequestWithBlinds(chal, nonces, issuer.TokenKeyID(), issuer.TokenKey(), blinds)
				if err != nil {
					return nil, nil, err
				}
				req := append([]byte{}, st.Request().Marshal()...)
				resp, err := issuer.Evaluate(st.Request())
				if err != nil {
					return nil, nil, err
				}
				toks, err := st.FinalizeTokens(resp)
				var out []byte
				for _, tk := range toks {
					out = append(out, tk.Marshal()...)
				}
				return req, out, err
			}
		}
		clen := gen.Pick(t, []int{0, 1, 32, 33, 100}, "challengeLen")
		chalA := rapid.SliceOfN(rapid.Byte(), clen, clen).Draw(t, "challengeA")
		chalB := rapid.SliceOfN(rapid.Byte(), clen, clen).Draw(t, "challengeB")
		var nonA, nonB [][]byte
		for i := 0; i < n; i++ {
			nonA = append(nonA, gen.Bytes32().Draw(t, "nonceA"))
			nonB = append(nonB, gen.Bytes32().Draw(t, "nonceB"))
		}
		s.Eval()
		tn := gen.TypeName(typ)
		// reference first: issuance from fresh, private copies of B
		freshN := make([][]byte, n)
		for i := range freshN {
			freshN[i] = append([]byte{}, nonB[i]...)
		}
		reqFresh, tokFresh, err := issue(append([]byte{}, chalB...), freshN)
		if err != nil {
			rt.Fail(t, "C11/"+tn+"/run", "issuance failed: %v", err)
			return
		}
		// caller buffers holding A, then overwritten in place with B
		X := append([]byte{}, chalA...)
		NX := make([][]byte, n)
		for i := range NX {
			NX[i] = append([]byte{}, nonA[i]...)
		}
		if _, _, err := issue(X, NX); err != nil {
			rt.Fail(t, "C11/"+tn+"/run", "issuance failed: %v", err)
			return
		}
		copy(X, chalB)
		for i := range NX {
			copy(NX[i], nonB[i])
		}
		reqReuse, tokReuse, err := issue(X, NX)
		if err != nil {
			rt.Fail(t, "C11/"+tn+"/run", "issuance from reused buffers failed: %v", err)
			return
		}
		// absolute oracle as well: every token carries nonce B and SHA-256(challenge B)
		digestB := sha256.Sum256(chalB)
		tl := len(tokReuse) / n
		for i := 0; i < n; i++ {
			tk := tokReuse[i*tl : (i+1)*tl]
			if !bytes.Equal(tk[2:34], nonB[i]) || !bytes.Equal(tk[34:66], digestB[:]) {
				rt.Fail(t, "C11/"+tn+"/token-depends-on-buffer-history", "token %d created from reused caller buffers does not carry the nonce / SHA-256(challenge) of the values passed: %s", i, rt.Hex(tk))
				return
			}
		}
		if !bytes.Equal(reqReuse, reqFresh) {
			rt.Fail(t, "C11/"+tn+"/request-depends-on-buffer-history", "same argument values, different request bytes when the caller reuses its buffers: %s vs %s", rt.Hex(reqReuse), rt.Hex(reqFresh))
			return
		}
		if !bytes.Equal(tokReuse, tokFresh) {
			rt.Fail(t, "C11/"+tn+"/token-depends-on-buffer-history", "same key, challenge and nonce values, different token bytes when the caller reuses its buffers: %s vs %s", rt.Hex(tokReuse), rt.Hex(tokFresh))
			return
		}
		if !bytes.Equal(chalA, chalB) {
			s.Nontrivial([]byte{byte(typ)}, chalA, chalB, bytes.Join(nonA, nil), bytes.Join(nonB, nil))
		}
		s.Sample(func() any {
			return map[string]any{"type": typ, "challengeA": rt.Hex(chalA), "challengeB": rt.Hex(chalB)}
		})
	})
}

// ---------------------------------------------------------------- Rust interop vectors

type rawIssuance struct {
	Type      string  `json:"type"`
	SkS       string  `json:"skS"`
	PkS       string  `json:"pkS"`
	Challenge string  `json:"token_challenge"`
	Nonce     *string `json:"nonce"`
	Blind     *string `json:"blind"`
	Salt      *string `json:"salt"`
	Token     *string `json:"token"`
}

func unhex(t *testing.T, s string) []byte {
	b, err := hex.DecodeString(s)
	if err != nil {
		t.Fatalf("vector hex: %v", err)
	}
	return b
}

// rsaFromSPKI parses the RSASSA-PSS SubjectPublicKeyInfo without pat-go.
func rsaFromSPKI(der []byte) (*rsa.PublicKey, error) {
	var spki struct {
		Algo asn1.RawValue
		Key  asn1.BitString
	}
	if rest, err := asn1.Unmarshal(der, &spki); err != nil || len(rest) != 0 {
		return nil, fmt.Errorf("spki: %v", err)
	}
	return x509.ParsePKCS1PublicKey(spki.Key.RightAlign())
}

func TestRustVectors(t *testing.T) {
	s := rt.S("rust-vectors").SetRule("every entry of batched-issuance-test-vectors-rust.json: the request rebuilt with the vector's key, challenge, nonce, blind (and salt) must equal the vector's token_request byte for byte, and finalizing the vector's own token_response must give the vector's token; keys parsed without pat-go; non-trivial = every issuance; distinct by bytes")
	raw, err := os.ReadFile(filepath.Join(rt.RepoDir, "tokens/batched/batched-issuance-test-vectors-rust.json"))
	if err != nil {
		t.Fatalf("vectors not readable: %v", err)
	}
	var vecs []struct {
		Issuance      []rawIssuance `json:"issuance"`
		TokenRequest  string        `json:"token_request"`
		TokenResponse string        `json:"token_response"`
	}
	if err := json.Unmarshal(raw, &vecs); err != nil {
		t.Fatalf("vectors: %v", err)
	}
	for vi, v := range vecs {
		var reqs []tokens.TokenRequestWithDetails
		var finals []func([]byte) (tokens.Token, error)
		var encReqs [][]byte
		for _, is := range v.Issuance {
			pk := unhex(t, is.PkS)
			kid := sha256.Sum256(pk)
			chal, nonce, blind := unhex(t, is.Challenge), unhex(t, *is.Nonce), unhex(t, *is.Blind)
			switch is.Type {
			case "0001":
				pub := new(oprf.PublicKey)
				if err := pub.UnmarshalBinary(oprf.SuiteP384, pk); err != nil {
					t.Fatalf("vector key: %v", err)
				}
				st, err := type1.NewBasicPrivateClient().CreateTokenRequestWithBlind(chal, nonce, kid[:], pub, blind)
				if err != nil {
					rt.Report(t, "C11/vectors/create", "", nil, "vector %d: %v", vi, err)
					continue
				}
				reqs = append(reqs, st.Request())
				encReqs = append(encReqs, st.Request().Marshal())
				finals = append(finals, st.FinalizeToken)
			case "0002":
				pub, err := rsaFromSPKI(pk)
				if err != nil {
					t.Fatalf("vector key: %v", err)
				}
				st, err := type2.NewBasicPublicClient().CreateTokenRequestWithBlind(chal, nonce, kid[:], pub, blind, unhex(t, *is.Salt))
				if err != nil {
					rt.Report(t, "C11/vectors/create", "", nil, "vector %d: %v", vi, err)
					continue
				}
				reqs = append(reqs, st.Request())
				encReqs = append(encReqs, st.Request().Marshal())
				finals = append(finals, st.FinalizeToken)
			default:
				t.Fatalf("vector type %s", is.Type)
			}
		}
		s.Eval()
		want := unhex(t, v.TokenRequest)
		s.Nontrivial(want)
		// reference assembly of the batch from the per-request encodings, and pat-go's own
		if got := ref.EncodeBatchRequest(encReqs); !bytes.Equal(got, want) {
			rt.Report(t, "C11/vectors/request", "", nil, "vector %d: requests rebuilt from the vector's blinds differ from token_request:\n got %x\nwant %x", vi, got, want)
		}
		br, err := batched.NewBasicClient().CreateTokenRequest(reqs)
		if err != nil || !bytes.Equal(br.Marshal(), want) {
			rt.Report(t, "C11/vectors/batch-request", "", nil, "vector %d: BatchedTokenRequest.Marshal differs from token_request (%v)", vi, err)
		}
		resps, err := batched.UnmarshalBatchedTokenResponses(unhex(t, v.TokenResponse))
		if err != nil || len(resps) != len(finals) {
			rt.Report(t, "C11/vectors/response-decode", "", nil, "vector %d: token_response does not decode into %d entries: %v", vi, len(finals), err)
			continue
		}
		for i, fin := range finals {
			tok, err := fin(resps[i])
			if err != nil {
				rt.Report(t, "C11/vectors/finalize", "", nil, "vector %d issuance %d: finalizing the vector's response failed: %v", vi, i, err)
				continue
			}
			if wantTok := unhex(t, *v.Issuance[i].Token); !bytes.Equal(tok.Marshal(), wantTok) {
				rt.Report(t, "C11/vectors/token", "", nil, "vector %d issuance %d: token differs from the Rust implementation's:\n got %x\nwant %x", vi, i, tok.Marshal(), wantTok)
			}
			s.Eval()
			s.Nontrivial(resps[i])
		}
		s.Sample(func() any { return map[string]any{"vector": vi, "token_request": rt.Hex(want)} })
	}
}

// TestShippedPerTypeVectors: the per-type issuance vectors shipped in the repository (types 1, 2, 5) and the
// Go-generated batched vectors are replayed the same way (they are regression oracles: requests and tokens
// must keep reproducing them byte for byte). Keys are parsed without pat-go.
func TestShippedPerTypeVectors(t *testing.T) {
	s := rt.S("shipped-vectors").SetRule("every entry of type1-/type2-/type5-issuance-test-vectors.json: the request rebuilt from the vector's key, challenge, nonce(s), blind(s) (and salt) equals token_request; finalizing the vector's token_response gives the vector's token(s). non-trivial = every vector; distinct by bytes")
	type vec struct {
		PkS       string   `json:"pkS"`
		Challenge string   `json:"token_challenge"`
		Nonce     string   `json:"nonce"`
		Nonces    []string `json:"nonces"`
		Blind     string   `json:"blind"`
		Blinds    []string `json:"blinds"`
		Salt      string   `json:"salt"`
		Request   string   `json:"token_request"`
		Response  string   `json:"token_response"`
		Token     string   `json:"token"`
		Tokens    []string `json:"tokens"`
	}
	load := func(rel string) []vec {
		raw, err := os.ReadFile(filepath.Join(rt.RepoDir, rel))
		if err != nil {
			t.Fatalf("vectors not readable: %v", err)
		}
		var v []vec
		if err := json.Unmarshal(raw, &v); err != nil {
			t.Fatalf("%s: %v", rel, err)
		}
		return v
	}
	report := func(sig, f string, a ...any) { rt.Report(t, "C11/shipped/"+sig, "", nil, f, a...) }
	for i, v := range load("tokens/type1/type1-issuance-test-vectors.json") {
		pk := unhex(t, v.PkS)
		kid := sha256.Sum256(pk)
		pub := new(oprf.PublicKey)
		if err := pub.UnmarshalBinary(oprf.SuiteP384, pk); err != nil {
			t.Fatalf("vector key: %v", err)
		}
		s.Eval()
		s.Nontrivial(unhex(t, v.Request))
		st, err := type1.NewBasicPrivateClient().CreateTokenRequestWithBlind(unhex(t, v.Challenge), unhex(t, v.Nonce), kid[:], pub, unhex(t, v.Blind))
		if err != nil || !bytes.Equal(st.Request().Marshal(), unhex(t, v.Request)) {
			report("type1-request", "type-1 vector %d: rebuilt request differs from token_request (%v)", i, err)
			continue
		}
		tok, err := st.FinalizeToken(unhex(t, v.Response))
		if err != nil || !bytes.Equal(tok.Marshal(), unhex(t, v.Token)) {
			report("type1-token", "type-1 vector %d: finalizing token_response does not give the vector's token (%v)", i, err)
		}
	}
	for i, v := range load("tokens/type2/type2-issuance-test-vectors.json") {
		pk := unhex(t, v.PkS)
		kid := sha256.Sum256(pk)
		pub, err := rsaFromSPKI(pk)
		if err != nil {
			t.Fatalf("vector key: %v", err)
		}
		s.Eval()
		s.Nontrivial(unhex(t, v.Request))
		st, err := type2.NewBasicPublicClient().CreateTokenRequestWithBlind(unhex(t, v.Challenge), unhex(t, v.Nonce), kid[:], pub, unhex(t, v.Blind), unhex(t, v.Salt))
		if err != nil || !bytes.Equal(st.Request().Marshal(), unhex(t, v.Request)) {
			report("type2-request", "type-2 vector %d: rebuilt request differs from token_request (%v)", i, err)
			continue
		}
		tok, err := st.FinalizeToken(unhex(t, v.Response))
		if err != nil || !bytes.Equal(tok.Marshal(), unhex(t, v.Token)) {
			report("type2-token", "type-2 vector %d: finalizing token_response does not give the vector's token (%v)", i, err)
		}
	}
	for i, v := range load("tokens/type5/type5-issuance-test-vectors.json") {
		pk := unhex(t, v.PkS)
		kid := sha256.Sum256(pk)
		pub := new(oprf.PublicKey)
		if err := pub.UnmarshalBinary(oprf.SuiteRistretto255, pk); err != nil {
			t.Fatalf("vector key: %v", err)
		}
		var nonces, blinds [][]byte
		for j := range v.Nonces {
			nonces = append(nonces, unhex(t, v.Nonces[j]))
			blinds = append(blinds, unhex(t, v.Blinds[j]))
		}
		s.Eval()
		s.Nontrivial(unhex(t, v.Request))
		st, err := type5.NewBatchedPrivateClient().CreateTokenRequestWithBlinds(unhex(t, v.Challenge), nonces, kid[:], pub, blinds)
		if err != nil || !bytes.Equal(st.Request().Marshal(), unhex(t, v.Request)) {
			report("type5-request", "type-5 vector %d: rebuilt request differs from token_request (%v)", i, err)
			continue
		}
		toks, err := st.FinalizeTokens(unhex(t, v.Response))
		if err != nil || len(toks) != len(v.Tokens) {
			report("type5-token", "type-5 vector %d: finalizing token_response failed (%v)", i, err)
			continue
		}
		for j := range toks {
			if !bytes.Equal(toks[j].Marshal(), unhex(t, v.Tokens[j])) {
				report("type5-token", "type-5 vector %d token %d differs from the vector", i, j)
			}
		}
	}
	s.Sample(func() any { return "type1/type2/type5 *-issuance-test-vectors.json, 5 entries each" })
}

// TestSameKeyIDDifferentKeys: the token key id is an ARGUMENT; creation must follow the key it is given, whatever id
// accompanied another key earlier in the process.
func TestSameKeyIDDifferentKeys(t *testing.T) {
	s := rt.S("same-key-id-different-keys").SetRule("types 1, 2, 5: one fixed 32-byte key-id argument is used with two (three) different issuer keys in turn, with fixed blinds; each issuance must finalize to a token that verifies under ITS key and carries the id; the first key is then used again and must reproduce its first request and token byte for byte. non-trivial = every case; distinct by (type, key id, keys)")
	rt.Check(t, 40, 4000, func(t *rapid.T) {
		defer rt.Entropy(gen.Seed().Draw(t, "entropy"))()
		typ := gen.Pick(t, []uint16{1, 2, 5}, "type")
		keyID := gen.Bytes32().Draw(t, "keyID")
		chal, nonce := gen.Challenge().Draw(t, "challenge"), gen.Bytes32().Draw(t, "nonce")
		s.Eval()
		s.Class(gen.TypeName(typ))
		s.Nontrivial([]byte{byte(typ)}, keyID, chal, nonce)
		type result struct{ req, tok []byte }
		var first result
		order := []int{0, 1, 2, 0}
		var blind1, blind5, blind2, salt []byte
		blind1, blind5 = gen.P384Scalar().Draw(t, "blind1"), gen.RistrettoScalar().Draw(t, "blind5")
		salt = rapid.SliceOfN(rapid.Byte(), 48, 48).Draw(t, "salt")
		keySeed := gen.Seed().Draw(t, "keyseed")
		rsaBase := gen.RSAKey().Draw(t, "rsakey")
		_ = blind2
		for step, ki := range order {
			var req, tok []byte
			var verr error
			switch typ {
			case 1:
				k := gen.OPRFKey(oprf.SuiteP384, append(append([]byte{}, keySeed...), byte(ki)))
				st, err := type1.NewBasicPrivateClient().CreateTokenRequestWithBlind(chal, nonce, keyID, k.Public(), blind1)
				if err != nil {
					rt.Fail(t, "C11/type1/run", "creation failed: %v", err)
					return
				}
				req = append([]byte{}, st.Request().Marshal()...)
				resp, err := type1.NewBasicPrivateIssuer(k).Evaluate(st.Request())
				if err == nil {
					var tk tokens.Token
					if tk, err = st.FinalizeToken(resp); err == nil {
						tok = tk.Marshal()
						if !bytes.Equal(tk.Authenticator, gen.VOPRFOutput(oprf.SuiteP384, k, gen.AuthInput(1, nonce, chal, keyID))) {
							verr = fmt.Errorf("token does not verify under the key it was requested for")
						}
					}
				}
				if err != nil {
					verr = err
				}
			case 5:
				k := gen.OPRFKey(oprf.SuiteRistretto255, append(append([]byte{}, keySeed...), byte(ki)))
				st, err := type5.NewBatchedPrivateClient().CreateTokenRequestWithBlinds(chal, [][]byte{nonce}, keyID, k.Public(), [][]byte{blind5})
				if err != nil {
					rt.Fail(t, "C11/type5/run", "creation failed: %v", err)
					return
				}
				req = append([]byte{}, st.Request().Marshal()...)
				resp, err := type5.NewBatchedPrivateIssuer(k).Evaluate(st.Request())
				if err == nil {
					var tks []tokens.Token
					if tks, err = st.FinalizeTokens(resp); err == nil {
						tok = tks[0].Marshal()
						if !bytes.Equal(tks[0].Authenticator, gen.VOPRFOutput(oprf.SuiteRistretto255, k, gen.AuthInput(5, nonce, chal, keyID))) {
							verr = fmt.Errorf("token does not verify under the key it was requested for")
						}
					}
				}
				if err != nil {
					verr = err
				}
			case 2:
				k := gen.RSAPool()[(rsaBase+ki)%len(gen.RSAPool())]
				st, err := type2.NewBasicPublicClient().CreateTokenRequestWithBlind(chal, nonce, keyID, &k.PublicKey, []byte{3}, salt)
				if err != nil {
					rt.Fail(t, "C11/type2/run", "creation failed: %v", err)
					return
				}
				req = append([]byte{}, st.Request().Marshal()...)
				resp, err := type2.NewBasicPublicIssuer(k).Evaluate(st.Request())
				if err == nil {
					var tk tokens.Token
					if tk, err = st.FinalizeToken(resp); err == nil {
						tok = tk.Marshal()
						verr = gen.VerifyPSS(&k.PublicKey, gen.AuthInput(2, nonce, chal, keyID), tk.Authenticator)
					}
				}
				if err != nil {
					verr = err
				}
			}
			if verr != nil {
				rt.Fail(t, fmt.Sprintf("C11/type%d/key-id-reused-with-other-key", typ), "step %d (key %d of the sequence 0,1,2,0 under ONE key-id argument): %v", step, ki, verr)
				return
			}
			if step == 0 {
				first = result{req, tok}
			} else if step == 3 && (!bytes.Equal(first.req, req) || !bytes.Equal(first.tok, tok)) {
				rt.Fail(t, fmt.Sprintf("C11/type%d/not-reproducible-after-other-keys", typ), "the first key, used again after two other keys under the same key-id argument, does not reproduce its request/token")
				return
			}
		}
		s.Sample(func() any { return map[string]any{"type": typ, "key_id": rt.Hex(keyID)} })
	})
}
